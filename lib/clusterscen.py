"""Cluster scenario pieces shared by C07 (linearizability under faults) and C08 (durability): history recorder,
leader detection, and the FAILOVER scenario - the witness construction for any reordering of persist / send / apply in
the Ready loop: the quorum for a burst of writes is {leader L, follower F}; F dies at a chosen stage of its Ready loop;
L is lost for good; {F, P} must still hold every acknowledged write."""
import json, os, random, re, threading, time
import cluster
import server

def conv(r):
    t, val = r
    if t in ("+", "$"):
        return {"k": "nil", "v": [], "e": "", "a": []} if val is None else {"k": "str", "v": list(val), "e": "", "a": []}
    if t == ":":
        return {"k": "int", "v": list(str(val).encode()), "e": "", "a": []}
    if t == "-":
        return {"k": "err", "v": [], "e": "WRONGTYPE" if val.startswith(b"WRONGTYPE") else "OTHER", "a": []}
    return {"k": "nil", "v": [], "e": "", "a": []} if val is None else {"k": "arr", "v": [], "e": "", "a": [conv(x) for x in val]}


READ_ONLY = {"GET", "LLEN", "SCARD", "LRANGE", "SMEMBERS", "HGET", "EXISTS", "TTL", "TYPE", "STRLEN", "PING", "MGET", "SISMEMBER", "HGETALL", "ZRANGE", "XRANGE"}


class Recorder:
    def __init__(self, h):
        self.h = h
        self.lock = threading.Lock()
        self.t = 0
        self.ops = []

    def tick(self):
        with self.lock:
            self.t += 1
            return self.t

    def new_op(self, argv):
        with self.lock:
            self.t += 1
            op = {"id": len(self.ops) + 1, "argv": argv, "inv": self.t, "res": None, "reply": None, "now": int(time.time())}
            self.ops.append(op)
            return op

    def done(self, op, reply):
        with self.lock:
            self.t += 1
            op["res"] = self.t
            op["reply"] = reply

    def write(self, path, append=False):
        evs = []
        for op in self.ops:
            if op["res"] is None and str(op["argv"][0]).upper() in READ_ONLY:
                continue    # a read that never got its reply has no effect and nothing to explain: leaving it out keeps the set of open operations small
            evs.append((op["inv"], "inv", op))
            if op["res"] is not None:
                evs.append((op["res"], "res", op))
        evs.sort(key=lambda e: e[0])
        nil = {"k": "nil", "v": [], "e": "", "a": []}
        with open(path, "a" if append else "w") as f:
            f.write(json.dumps({"ev": "reset", "h": self.h, "id": 0, "now": 0, "argv": [], "answered": False}) + "\n")
            for _, kind, op in evs:
                argv = [list(a if isinstance(a, bytes) else a.encode()) for a in op["argv"]]
                if kind == "inv":
                    f.write(json.dumps({"ev": "inv", "h": self.h, "id": op["id"], "now": op["now"], "argv": argv,
                                        "reply": op["reply"] or nil, "answered": op["res"] is not None}) + "\n")
                else:
                    f.write(json.dumps({"ev": "res", "h": self.h, "id": op["id"], "now": op["now"], "argv": [], "reply": op["reply"], "answered": True}) + "\n")


LEADER_RE = re.compile(r"(\d+) became leader at term (\d+)")


def leader_of(cl):
    best = (0, None)
    for nd in cl.nodes:
        for m in LEADER_RE.finditer(cl.tail(nd, 400000)):
            if int(m.group(2)) >= best[0]:
                best = (int(m.group(2)), int(m.group(1)))
    return None if best[1] is None else cl.nodes[best[1] - 1]


def failover(args, seed, d):
    """The quorum for a burst of writes is {leader L, follower F} (follower P is down); F dies at a crash gate inside
    its Ready loop (verif hook VERIF_CRASH_AT=<stage>#<n>, after stalling there for 80 ms) while acknowledgements are in
    flight; then L is lost for good, F and P are restarted: {F, P} are a quorum and elect a leader. Every acknowledged
    write was on the disks of L and F when it was acknowledged, so it must still be there: the history, with a read-back of every key through F and P, must be
    linearizable. (Raft's 'persist before you answer' is what this scenario leans on.)"""
    name, gate, occ, idx = args
    rnd = random.Random(seed * 1000 + idx)
    cl = cluster.Cluster(3, trace=False).start_all()
    rec = Recorder(idx)
    stats = {"answered": 0, "unanswered": 0, "faults": []}
    result = {"name": name, "stats": stats, "path": None, "violations": [], "inconclusive": None}
    try:
        if cl.wait_serving(timeout=60) is None:
            result["inconclusive"] = "cluster did not start serving"
            return result
        L = leader_of(cl)
        if L is None:
            result["inconclusive"] = "no leader line in the logs"
            return result
        F, P = [nd for nd in cl.nodes if nd is not L]
        cl.kill(F)
        cl.start_node(F, crash_at="%s#%d" % (gate, occ), crash_delay_ms=80, crash_arm="ready:entries")   # only passes that carry entries count; the loop stalls 80 ms at the gate, then the node dies
        stats["faults"].append("restart follower %d with crash gate %s#%d" % (F.id, gate, occ))
        if cl.wait_serving(nodes=[F], timeout=40) is None and F.alive():
            result["inconclusive"] = "follower did not come back"
            return result
        if leader_of(cl) is not L:
            result["inconclusive"] = "leader changed during preparation"
            return result
        cl.kill(P)                      # P is down during the burst (a paused P would still receive the entries from its socket buffers later)
        stats["faults"].append("kill follower %d" % P.id)
        stop = threading.Event()

        def writer(c):
            try:
                conn = L.client(timeout=3.0)
            except Exception:
                return
            for i in range(1500):
                if stop.is_set():
                    break
                op = rec.new_op(["SET", "k%d" % rnd.randrange(16), "c%dv%d" % (c, i)])
                try:
                    rec.done(op, conv(conn.cmd(*op["argv"], timeout=3.0)))
                    stats["answered"] += 1
                except Exception:
                    stats["unanswered"] += 1
                    break
        threads = [threading.Thread(target=writer, args=(c,)) for c in range(4)]
        for t in threads:
            t.start()
        t0 = time.time()
        while F.alive() and time.time() - t0 < 20 and any(t.is_alive() for t in threads):
            time.sleep(0.01)
        died_at_gate = not F.alive()
        if died_at_gate and "panic:" in cl.tail(F, 6000):
            # the gate kills with SIGKILL and leaves no trace in the log: this node brought itself down
            died_at_gate = False
            result["violations"].append(({"branch": "cluster.node", "kind": "node-died", "detail": name.split("#")[0]},
                                         {"scenario": name, "faults": list(stats["faults"]), "log": cl.tail(F, 2500)},
                                         "node %d (restarted, catching up as a follower under write load) died by itself in scenario %s: %s" % (
                                             F.id, name, cl.tail(F, 6000)[cl.tail(F, 6000).find("panic:"):][:300])))
        cl.stop_cont(L, True)           # the leader may not re-send what it has: freeze it, then lose it
        stop.set()
        stats["faults"].append("follower %d %s; SIGSTOP + kill leader %d" % (F.id, "died at the gate" if died_at_gate else "never reached the gate", L.id))
        if F.alive():
            cl.kill(F)
        cl.start_node(F)
        cl.kill(L)
        cl.start_node(P)
        for t in threads:
            t.join(timeout=30)
        if not died_at_gate:
            result["inconclusive"] = "gate %s#%d not reached under load" % (gate, occ)
        if cl.wait_serving(nodes=[F, P], timeout=60) is None:
            result["inconclusive"] = "the surviving quorum did not elect a leader in 60 s"
            return result
        path = os.path.join(d, "hist-%d.ndjson" % idx)
        for nd in (F, P):
            c = nd.client(timeout=6.0)
            for k in range(16):
                op = rec.new_op(["GET", "k%d" % k])
                try:
                    rec.done(op, conv(c.cmd(*op["argv"], timeout=6.0)))
                except Exception:
                    result["inconclusive"] = "read-back through node %d got no reply" % nd.id
                    return result
            c.close()
        rec.write(path)
        result["path"] = path
        result["inconclusive"] = None if died_at_gate else result["inconclusive"]
        return result
    finally:
        cl.shutdown()




def pinned_lockstep(rounds=40, n=3):
    """One client per node of a fresh n-node cluster, all nodes brought to the same number of accepted proposals (hook
    trace), then `rounds` rounds in lock step: client i sends INCRBY own<i> 10^i through node i, all at the same moment.
    Every client must get the reply to ITS command (the running total of its own key) and every replica must end with the
    same totals. Identifiers that are only unique per node (counters, timestamps) collide here and deliver a reply to the
    wrong client or wedge the apply loop. Returns (problems, stats)."""
    cl = cluster.Cluster(n, trace=True).start_all()
    problems, stats = [], {"rounds": 0, "nodes": n}
    try:
        if cl.wait_serving(timeout=60) is None:
            return None, dict(stats, inconclusive="cluster did not start serving")
        counts = {nd.id: sum(1 for e in cl.events(nd) if e.get("ev") == "propose") for nd in cl.nodes[:n]}
        top = max(counts.values())
        conns = []
        for nd in cl.nodes[:n]:
            c = nd.client(timeout=6.0)
            for _ in range(top - counts[nd.id]):
                c.cmd("PING")
            conns.append(c)
        bar = threading.Barrier(n)
        lock = threading.Lock()

        def client(i):
            c = conns[i]
            step = 10 ** i
            total = 0
            for r in range(rounds):
                try:
                    bar.wait(timeout=30)
                except threading.BrokenBarrierError:
                    return
                total += step
                try:
                    rep = c.cmd("INCRBY", "own%d" % i, str(step), timeout=25.0)
                except Exception as e:
                    with lock:
                        problems.append({"kind": "no-reply", "node": cl.nodes[i].id, "round": r, "detail": "INCRBY own%d %d through node %d: no reply within 25 s (%s)" % (i, step, cl.nodes[i].id, type(e).__name__)})
                    bar.abort()
                    return
                if rep != (":", total):
                    with lock:
                        problems.append({"kind": "foreign-reply", "node": cl.nodes[i].id, "round": r,
                                         "detail": "INCRBY own%d %d through node %d answered %r; the reply to this command is :%d" % (i, step, cl.nodes[i].id, rep, total)})
                    bar.abort()
                    return
                if i == 0:
                    stats["rounds"] = r + 1

        ts = [threading.Thread(target=client, args=(i,)) for i in range(n)]
        for t in ts:
            t.start()
        for t in ts:
            t.join(timeout=120)
        if not problems:
            for nd in cl.nodes[:n]:
                try:
                    c = nd.client(timeout=6.0)
                    for i in range(n):
                        rep = c.cmd("GET", "own%d" % i, timeout=6.0)
                        if rep[1] != str(rounds * 10 ** i).encode():
                            problems.append({"kind": "replica-state", "node": nd.id, "round": rounds, "detail": "GET own%d through node %d = %r, expected %d" % (i, nd.id, rep[1], rounds * 10 ** i)})
                    c.close()
                except Exception as e:
                    problems.append({"kind": "no-reply", "node": nd.id, "round": rounds, "detail": "read-back through node %d got no reply" % nd.id})
        for nd in cl.nodes[:n]:
            if not nd.alive():
                problems.append({"kind": "node-died", "node": nd.id, "round": -1, "detail": cl.tail(nd, 800)})
        return problems, stats
    finally:
        cl.shutdown()


def snapshot_install_crash(gate="walsave", seed=1):
    """A follower that was down while the others compacted their logs comes back and is sent the leader's snapshot (by a
    leader of a NEW term, so that the hard state of that Ready is synced); it dies at `gate` inside the Ready cycle that
    carries the snapshot (crash gate armed by ready:snap), and is started again. Whatever it had persisted at that point,
    it must be able to start: a node whose own files make raft.RestartNode (or the WAL replay) refuse them is lost for good.
    Returns (problems, stats); process death at restart is the only verdict (what the node then serves is C08's known
    finding about snapshots)."""
    cl = cluster.Cluster(3, snapcount=20, catchup=5, trace=True).start_all()
    stats = {"gate": gate, "writes": 0, "died_at_gate": False}
    problems = []
    try:
        if cl.wait_serving(timeout=60) is None:
            return None, dict(stats, inconclusive="cluster did not start serving")
        L = leader_of(cl)
        if L is None:
            return None, dict(stats, inconclusive="no leader line in the logs")
        F, P = [nd for nd in cl.nodes if nd is not L]
        cl.kill(F)
        c = L.client(timeout=10.0)
        for i in range(90):
            try:
                c.cmd("SET", "si%d" % (i % 7), "v%d" % i, timeout=10.0)
                stats["writes"] += 1
            except Exception:
                break
        c.close()
        time.sleep(1.0)
        if not any(e.get("ev") == "snapshot_done" for e in cl.events(L)):
            return None, dict(stats, inconclusive="the leader did not compact its log")
        # a new term: restart the leader (L and P both hold everything; one of them wins)
        cl.kill(L)
        cl.start_node(L)
        if cl.wait_serving(nodes=[P, L], timeout=60) is None:
            return None, dict(stats, inconclusive="no leader after the leader's restart")
        cl.start_node(F, crash_at="%s#1" % gate, crash_arm="ready:snap")
        t0 = time.time()
        while F.alive() and time.time() - t0 < 40:
            time.sleep(0.05)
        if F.alive():
            return None, dict(stats, inconclusive="the follower never reached gate %s in a Ready that carries a snapshot" % gate)
        stats["died_at_gate"] = True
        # the order in which the follower made the parts of that Ready durable, as its own event trace shows it (B3 lead:
        # Recover.tla is instantiated with the observed order when it is not the specified one)
        order, in_snap_ready = None, False
        for e in cl.events(F):
            if e.get("ev") == "ready":
                in_snap_ready = e.get("snap") == "true"
            elif in_snap_ready and e.get("ev") in ("savesnap", "walsave") and order is None:
                order = "snap_first" if e["ev"] == "savesnap" else "save_first"
        stats["ready_snapshot_order"] = order
        cl.start_node(F)
        t0 = time.time()
        served = False
        while time.time() - t0 < 60:
            if not F.alive():
                break
            try:
                cc = F.client(timeout=3.0)
                r = cc.cmd("PING", timeout=3.0)
                cc.close()
                if r[0] in ("+", "$"):
                    served = True
                    break
            except Exception:
                time.sleep(0.3)
        stats["served_after_restart"] = served
        if not F.alive():
            problems.append({"kind": "cannot-restart", "gate": gate,
                             "detail": "the follower died at %s while installing the leader's snapshot and cannot start any more: %s" % (gate, cl.tail(F, 600).strip().splitlines()[-3:])})
        return problems, stats
    finally:
        cl.shutdown()


def stalled_proposals(args, d):
    """Both followers are frozen, then three connections hand one write each to the leader (which can append but not commit);
    the followers come back after `stall` seconds. Each write must take effect exactly once and be answered with its own
    result however long it waited: the history (with a read-back through every node) must be linearizable."""
    name, stall, idx = args
    cl = cluster.Cluster(3, trace=False).start_all()
    rec = Recorder(idx)
    stats = {"answered": 0, "unanswered": 0, "faults": []}
    result = {"name": name, "stats": stats, "path": None, "violations": [], "inconclusive": None}
    try:
        if cl.wait_serving(timeout=60) is None:
            result["inconclusive"] = "cluster did not start serving"
            return result
        L, t0 = None, time.time()
        while L is None and time.time() - t0 < 30:
            L = leader_of(cl)
            if L is None:
                time.sleep(0.3)
        if L is None:
            result["inconclusive"] = "no leader line in the logs"
            return result
        followers = [nd for nd in cl.nodes if nd is not L]
        warm = L.client(timeout=8.0)
        for argv in (["SET", "sctr", "10"], ["RPUSH", "slst", "a"], ["HSET", "sh", "n", "5"]):
            op = rec.new_op(argv); rec.done(op, conv(warm.cmd(*argv, timeout=8.0)))
        warm.close()
        if leader_of(cl) is not L:
            result["inconclusive"] = "leader changed during preparation"
            return result
        for f in followers:
            cl.stop_cont(f, True)
        conns, ops = [], []
        for argv in (["INCR", "sctr"], ["RPUSH", "slst", "b"], ["HINCRBY", "sh", "n", "1"]):
            c = L.client(timeout=8.0)
            op = rec.new_op(argv)
            c.send_raw(server.encode(argv))
            conns.append(c); ops.append(op)
        stats["faults"].append("SIGSTOP both followers for %.1f s with three writes handed to the leader" % stall)
        time.sleep(stall)
        for f in followers:
            cl.stop_cont(f, False)
        for c, op in zip(conns, ops):
            try:
                rec.done(op, conv(c.read_reply(timeout=30.0)))
                stats["answered"] += 1
            except Exception:
                stats["unanswered"] += 1
            c.close()
        time.sleep(1.0)
        for nd in cl.nodes:
            try:
                c = nd.client(timeout=8.0)
                for argv in (["GET", "sctr"], ["LRANGE", "slst", "0", "-1"], ["HGET", "sh", "n"]):
                    op = rec.new_op(argv)
                    rec.done(op, conv(c.cmd(*argv, timeout=8.0)))
                c.close()
            except Exception:
                result["inconclusive"] = "read-back through node %d got no reply" % nd.id
        path = os.path.join(d, "hist-%d.ndjson" % idx)
        rec.write(path)
        result["path"] = path
        return result
    finally:
        cl.shutdown()


def lone_restart_ack(seed=1, own=60, others=200):
    """Writes through two nodes, then every node is killed and ONE is started alone: with no quorum nothing new can be
    committed, so nothing new may be acknowledged. Writes are sent to the lone node from the moment it accepts connections
    (while it is replaying its log). Then it is killed too, the whole cluster is restarted, and every acknowledged write -
    those from before and any the lone node acknowledged - must be readable through every node.
    Returns (problems, stats); problems None = inconclusive."""
    cl = cluster.Cluster(3, trace=False).start_all()
    stats = {"acked_before": 0, "acked_by_lone_node": 0, "lone_attempts": 0}
    probs = []
    try:
        if cl.wait_serving(timeout=60) is None:
            return None, dict(stats, inconclusive="cluster did not start serving")
        n1, n2, n3 = cl.nodes[:3]
        acked = {}
        for nd, cnt, pre in ((n2, others, "o"), (n1, own, "w")):
            c = nd.client(timeout=8.0)
            for i in range(cnt):
                k, val = "%s%d" % (pre, i), "v%d-%d" % (seed, i)
                try:
                    if c.cmd("SET", k, val, timeout=8.0)[0] == "+":
                        acked[k] = val
                except Exception:
                    return None, dict(stats, inconclusive="a write before the crash got no reply")
            c.close()
        stats["acked_before"] = len(acked)
        for nd in (n1, n2, n3):
            cl.kill(nd)
        cl.start_node(n1)
        t0 = time.time()
        lone = {}
        i = 0
        while time.time() - t0 < 7.0:
            try:
                c = n1.client(timeout=1.5)
            except Exception:
                time.sleep(0.02)
                continue
            k, val = "lone%d" % i, "L%d-%d" % (seed, i)
            i += 1
            stats["lone_attempts"] += 1
            try:
                r = c.cmd("SET", k, val, timeout=1.5)
                if r[0] == "+":
                    lone[k] = val
            except Exception:
                pass
            c.close()
        stats["acked_by_lone_node"] = len(lone)
        cl.kill(n1)
        for nd in (n1, n2, n3):
            cl.start_node(nd)
        if cl.wait_serving(nodes=[n1, n2, n3], timeout=90) is None:
            for nd in (n1, n2, n3):
                if not nd.alive():
                    probs.append({"kind": "node-does-not-come-back", "detail": "node %d does not come back after the full restart: %s" % (nd.id, cl.tail(nd, 400))})
            return (probs or None), dict(stats, inconclusive=None if probs else "the restarted cluster did not serve within 90 s")
        acked.update(lone)
        for nd in (n1, n2, n3):
            c = nd.client(timeout=8.0)
            missing = []
            for k, val in acked.items():
                try:
                    r = c.cmd("GET", k, timeout=8.0)
                except Exception:
                    return None, dict(stats, inconclusive="read-back through node %d got no reply" % nd.id)
                if r[1] != val.encode():
                    missing.append((k, r[1]))
            c.close()
            if missing:
                k, got = missing[0]
                probs.append({"kind": "lost-write", "node": nd.id, "missing": len(missing), "first": k, "acknowledged_by_lone_node": k in lone,
                              "detail": "%d acknowledged write(s) are not readable through node %d after the full restart, e.g. SET %s %s (%s) reads %r" % (
                                  len(missing), nd.id, k, acked[k], "acknowledged by node 1 while it was the only node running - no quorum existed" if k in lone else "acknowledged before the crash", got)})
        return probs, stats
    finally:
        cl.shutdown()


def snapshot_boundary(n=20, seed=1):
    """A node that began its current life from a snapshot (restarted after taking one) applies exactly snapCount further entries,
    one per Ready (one client, one command at a time): the snapshot it then takes, and the compaction that follows, must not
    bring it down, and every acknowledged write stays readable through every node. Returns (problems, stats)."""
    cl = cluster.Cluster(3, snapcount=n, catchup=n, trace=False).start_all()
    stats = {"snapcount": n, "acked": 0}
    probs = []
    try:
        if cl.wait_serving(timeout=60) is None:
            return None, dict(stats, inconclusive="cluster did not start serving")
        acked = {}

        def burst(c, lo, hi):
            for i in range(lo, hi):
                k, val = "sb%d" % i, "v%d-%d" % (seed, i)
                r = c.cmd("SET", k, val, timeout=10.0)
                if r[0] == "+":
                    acked[k] = val
        c = cl.nodes[0].client(timeout=10.0)
        burst(c, 0, n + 4)                       # every node takes its first snapshot
        victim = cl.nodes[1]
        cl.kill(victim)
        cl.start_node(victim)                    # ... and this one starts again from it
        if cl.wait_serving(nodes=[victim], timeout=60) is None:
            return None, dict(stats, inconclusive="the restarted node did not come back")
        try:
            c.close()
        except Exception:
            pass
        c = cl.nodes[0].client(timeout=10.0)
        try:
            burst(c, n + 4, 3 * n + 12)          # crosses snapshotIndex + snapCount on every node, one entry at a time
        except Exception as e:
            stats["burst_error"] = repr(e)
        c.close()
        stats["acked"] = len(acked)
        time.sleep(1.0)
        for nd in cl.nodes[:3]:
            if not nd.alive():
                log = cl.tail(nd, 6000)
                at = log.find("panic:")
                probs.append({"kind": "node-died", "node": nd.id, "restarted_from_snapshot": nd is victim,
                              "detail": "node %d died by itself while the cluster applied one command at a time across its snapshot threshold (%d entries)%s: %s" % (
                                  nd.id, n, " after it had been restarted from its snapshot" if nd is victim else "", log[at:at + 300] if at >= 0 else log[-300:])})
        if probs:
            return probs, stats
        for nd in cl.nodes[:3]:
            cc = nd.client(timeout=10.0)
            missing = [k for k, val in acked.items() if (cc.cmd("GET", k, timeout=10.0)[1] or b"") != val.encode()]
            cc.close()
            if missing:
                stats.setdefault("missing", {})[nd.id] = len(missing)      # reported by the crash scenarios (known finding: snapshots are not loaded)
        return probs, stats
    finally:
        cl.shutdown()


def concurrent_same_node(clients=6, ops=40):
    """`clients` connections to ONE node of a 3-node cluster, each incrementing its own counter and appending to its own list
    `ops` times, all at the same moment. On a standalone server connection i sees INCR replies 1..ops and RPUSH replies 1..ops,
    and afterwards every node holds ops / the ops elements in order. Whatever is shared between the proposals of one node
    (buffers, identifiers) shows as a reply or a final value that is not the standalone one. Returns (problems, stats)."""
    import threading
    cl = cluster.Cluster(3, trace=False).start_all()
    probs, stats = [], {"clients": clients, "ops": ops, "answered": 0}
    try:
        if cl.wait_serving(timeout=60) is None:
            return None, dict(stats, inconclusive="cluster did not start serving")
        node = cl.nodes[0]
        lock = threading.Lock()
        start = threading.Event()

        def worker(i):
            try:
                c = node.client(timeout=25.0)
            except Exception as e:
                with lock:
                    probs.append({"kind": "unanswered", "detail": "connection %d could not connect: %r" % (i, e)})
                return
            start.wait()
            for j in range(1, ops + 1):
                for argv, want in ((["INCR", "cs-ctr-%d" % i], (":", j)), (["RPUSH", "cs-lst-%d" % i, "e%d-%d" % (i, j)], (":", j))):
                    try:
                        r = c.cmd(*argv, timeout=25.0)
                    except Exception as e:
                        with lock:
                            probs.append({"kind": "unanswered", "detail": "connection %d: %s got no reply within 25 s (%r)" % (i, " ".join(argv), e)})
                        return
                    with lock:
                        stats["answered"] += 1
                    if tuple(r[:2]) != want:
                        with lock:
                            probs.append({"kind": "not-the-standalone-reply", "detail": "connection %d: %s answered %r; a standalone server answers %r" % (i, " ".join(argv), tuple(r[:2]), want)})
                        return
            c.close()
        ths = [threading.Thread(target=worker, args=(i,)) for i in range(clients)]
        for t in ths:
            t.start()
        start.set()
        for t in ths:
            t.join(120)
        for nd in cl.nodes[:3]:
            if not nd.alive():
                log = cl.tail(nd, 6000)
                at = log.find("panic:")
                probs.append({"kind": "node-died", "detail": "node %d died while %d connections proposed through node 1 at the same moment: %s" % (nd.id, clients, log[at:at + 300] if at >= 0 else log[-300:])})
        if probs:
            return probs, stats
        time.sleep(0.5)
        for nd in cl.nodes[:3]:
            cc = nd.client(timeout=10.0)
            for i in range(clients):
                g = cc.cmd("GET", "cs-ctr-%d" % i, timeout=10.0)
                l = cc.cmd("LRANGE", "cs-lst-%d" % i, "0", "-1", timeout=10.0)
                wantl = [("$", ("e%d-%d" % (i, j)).encode()) for j in range(1, ops + 1)]
                if g[1] != str(ops).encode() or [tuple(x[:2]) for x in (l[1] or [])] != wantl:
                    probs.append({"kind": "not-the-standalone-state", "detail": "through node %d: counter %d reads %r (standalone: %d), its list has %d elements%s" % (
                        nd.id, i, g[1], ops, len(l[1] or []), "" if [tuple(x[:2]) for x in (l[1] or [])] == wantl else " not in the order they were pushed / not the ones pushed")})
                    break
            cc.close()
        return probs, stats
    finally:
        cl.shutdown()
