"""Real server processes (standalone and cluster nodes) and a minimal RESP client for the checks."""
import json, os, random, signal, socket, subprocess, time
import common

_bin_cache = {}


def build_server(tags="verif", race=False):
    key = (tags, race)
    if key not in _bin_cache:
        d = common.scratch("srvbin-")
        out = os.path.join(d, "RedisGO-verif" + ("-race" if race else ""))
        common.go_build_repo(common.REPO, out, tags=tags, race=race)
        _bin_cache[key] = out
    return _bin_cache[key]


def free_port():
    for _ in range(200):
        p = random.randint(20000, 60000)
        s = socket.socket()
        try:
            s.bind(("127.0.0.1", p))
            s.close()
            return p
        except OSError:
            s.close()
    raise RuntimeError("no free port")


def encode(argv):
    out = b"*%d\r\n" % len(argv)
    for a in argv:
        if isinstance(a, str):
            a = a.encode("latin1")
        out += b"$%d\r\n%s\r\n" % (len(a), a)
    return out


class Incomplete(Exception):
    pass


def decode(buf, pos=0):
    """Independent RESP2 decoder. Returns (value, next_pos). value: ('+',bytes) ('-',bytes) (':',int) ('$',bytes|None) ('*',list|None)."""
    if pos >= len(buf):
        raise Incomplete()
    t = buf[pos:pos + 1]
    nl = buf.find(b"\r\n", pos)
    if nl < 0:
        raise Incomplete()
    line = buf[pos + 1:nl]
    if t in (b"+", b"-"):
        return (t.decode(), line), nl + 2
    if t == b":":
        return (":", int(line)), nl + 2
    if t == b"$":
        n = int(line)
        if n == -1:
            return ("$", None), nl + 2
        if len(buf) < nl + 2 + n + 2:
            raise Incomplete()
        if buf[nl + 2 + n:nl + 4 + n] != b"\r\n":
            raise ValueError("bulk not terminated by CRLF")
        return ("$", buf[nl + 2:nl + 2 + n]), nl + 4 + n
    if t == b"*":
        n = int(line)
        if n == -1:
            return ("*", None), nl + 2
        items = []
        p = nl + 2
        for _ in range(n):
            v, p = decode(buf, p)
            items.append(v)
        return ("*", items), p
    raise ValueError("bad type byte %r at %d" % (t, pos))


class Client:
    def __init__(self, port, host="127.0.0.1", timeout=5.0):
        self.s = socket.create_connection((host, port), timeout=timeout)
        self.s.settimeout(timeout)
        self.buf = b""

    def send_raw(self, data):
        self.s.sendall(data)

    def read_reply(self, timeout=None):
        if timeout is not None:
            self.s.settimeout(timeout)
        while True:
            try:
                v, p = decode(self.buf, 0)
                self.buf = self.buf[p:]
                return v
            except Incomplete:
                pass
            chunk = self.s.recv(65536)
            if not chunk:
                raise ConnectionError("closed")
            self.buf += chunk

    def cmd(self, *argv, timeout=None):
        self.send_raw(encode(argv))
        return self.read_reply(timeout)

    def close(self):
        try:
            self.s.close()
        except Exception:
            pass


class Server:
    """One standalone server process in its own directory."""

    def __init__(self, databases=16, shardnum=16, tags="verif", race=False, env=None, conf_text=None):
        self.bin = build_server(tags, race)
        self.dir = common.scratch("srv-")
        self.port = free_port()
        # conf_text: a template with {port} and {dir} (to start the server from configuration files of other shapes)
        open(os.path.join(self.dir, "redis.conf"), "w").write(
            conf_text.format(port=self.port, dir=self.dir) if conf_text is not None else
            "host 127.0.0.1\nport %d\nlogdir %s\nloglevel panic\nshardnum %d\ndatabases %d\n" % (self.port, self.dir, shardnum, databases))
        self.log = open(os.path.join(self.dir, "stdout.log"), "wb")
        self.p = subprocess.Popen([self.bin, "--config", "redis.conf"], cwd=self.dir, stdout=self.log, stderr=subprocess.STDOUT,
                                  env=common.env(env))
        deadline = time.time() + 15
        while time.time() < deadline:
            if self.p.poll() is not None:
                common.die_infra("server exited at start: " + self.tail())
            try:
                socket.create_connection(("127.0.0.1", self.port), timeout=0.3).close()
                return
            except OSError:
                time.sleep(0.05)
        common.die_infra("server did not start listening: " + self.tail())

    def tail(self, n=3000):
        try:
            return open(os.path.join(self.dir, "stdout.log"), errors="replace").read()[-n:]
        except Exception:
            return ""

    def alive(self):
        return self.p.poll() is None

    def client(self, timeout=5.0):
        return Client(self.port, timeout=timeout)

    def stop(self):
        if self.p.poll() is None:
            self.p.kill()
            self.p.wait()
        self.log.close()
