"""B3 for C13: lock-order witness construction (DESIGN.md §2.2 B3, §C13).

  1. OBSERVE  harness/cmd/lockobs runs every multi-key command form alone, for every key-role x stripe x key-state
              configuration, and records its lock programme through the H1 hook (memdb.VerifLockHook).
  2. MODEL    spec/MC_Locks.tla (Locks.tla = Go sync.RWMutex per stripe, writer preference) reads the observed
              programmes and composes them: every single, pair and triple of the distinct SEGMENTS (a segment runs
              from "holds nothing" to "holds nothing"; a deadlock of whole commands is a deadlock of one segment of
              each unfinished command and vice versa, so this covers every pair and triple of observed commands),
              plus a seeded sample of pairs of whole programmes as a cross-check. Every reachable state in which all
              unfinished processes are blocked is printed with a schedule. In parallel spec/MC_LocksModel.tla checks
              the model itself on hand-written programmes (discipline passes, typical breaks deadlock).
  3. REPLAY   each counterexample schedule is executed on the real code by `lockobs replay` (goroutines gated at the
              "want" hook, then all gates opened, 20 s watchdog). Commands that never return = real deadlock =
              violation. A model deadlock that does not reproduce is printed as DIVERGENCE and counted.
On the unchanged tree TLC finds no deadlock, so nothing is replayed."""
import concurrent.futures, itertools, json, os, random, subprocess, sys, threading, time
import common, ks

PROP = "C13"
FAST_JVM = ("-XX:TieredStopAtLevel=1",)   # short runs: C1 only halves the wall time (measured 5.9 s -> 2.7 s for 36k states)


def _show_prog(prog):
    return " ".join(("+" if s["op"] == "acq" else "-") + s["kind"] + str(s["pos"]) for s in prog)


# ------------------------------------------------------------------------------------------------ model sanity

def _parse_printed(out, tag):
    res = []
    for line in out.splitlines():
        if line.startswith('"'):
            try:
                s = json.loads(line)
            except Exception:
                continue
            if s.startswith(tag + " "):
                res.append(json.loads(s[len(tag) + 1:]))
    return res


def model_sanity(result, cfg="MC_LocksModel.cfg"):
    """MC_LocksModel: the deadlocking combos of the hand-written programmes must be exactly the upward closure of the
    minimal sets the spec declares (both directions: no missed deadlock, no invented one)."""
    try:
        r = common.run_tlc("MC_LocksModel", cfg=cfg, workers=4, heap="1g", timeout=240, jvm=FAST_JVM)
        if r.timed_out or r.rc != 0 or r.violated or "Model checking completed. No error" not in r.out:
            result["error"] = "MC_LocksModel did not complete (rc=%s violated=%s):\n%s" % (r.rc, r.violated, r.out[-2500:])
            return
        exp = _parse_printed(r.out, "EXPECT")
        if not exp:
            result["error"] = "MC_LocksModel printed no EXPECT record"
            return
        names = exp[0]["names"]
        minimal = [tuple(sorted(m)) for m in exp[0]["minimal"]]
        dead = set()
        for d in _parse_printed(r.out, "DEADLOCK"):
            dead.add(tuple(sorted(names[i - 1] for i in d["combo"])))

        def contains(c, m):  # multiset containment
            c = list(c)
            for x in m:
                if x in c:
                    c.remove(x)
                else:
                    return False
            return True

        # every composed combo: reconstruct the combos the instance ran from its INPUT line is not needed - a combo
        # that deadlocks must contain a declared minimal set, and every declared minimal set must deadlock
        wrong = [c for c in dead if not any(contains(c, m) for m in minimal)]
        missing = [m for m in minimal if m not in dead]
        # supersets of a minimal set that were composed must deadlock too (monotonicity); composed combos are not
        # listed by TLC, so check the ones we can name: pairs/triples over the names that contain a minimal set and
        # are reported at least for the minimal set itself (covered by `missing`)
        if wrong or missing:
            result["error"] = "Locks.tla disagrees with the hand-written expectations: unexpected deadlocks %s; expected but not found %s" % (wrong[:6], missing[:6])
            return
        result.update({"programmes": len(names), "deadlocking_combos": len(dead), "dead": sorted(dead), "minimal_sets_confirmed": len(minimal),
                       "states": r.distinct, "wall_s": round(r.wall, 1)})
    except Exception as e:  # pragma: no cover
        result["error"] = "model sanity crashed: %r" % (e,)


# ------------------------------------------------------------------------------------------------ observed model

def _segments(prog, stuck):
    """Split a programme at the points where the command holds nothing. Returns [(offset, steps)]."""
    out, cur, start, held = [], [], 0, 0
    for i, s in enumerate(prog):
        if not cur:
            start = i
        cur.append(s)
        if s["op"] == "acq":
            held += 1
        else:
            held = max(0, held - 1)
        if held == 0:
            out.append((start, cur))
            cur = []
    if cur:
        out.append((start, cur))
    return out


def _is_multi(steps):
    """A segment in which a process can wait while holding something (anything but acq x; rel x)."""
    return not (len(steps) == 2 and steps[0]["op"] == "acq" and steps[1]["op"] == "rel")


def _stripes_of(steps):
    return frozenset(s[2] for s in steps)


def build_model(obs, tier, seed):
    progs = obs["programmes"]
    # ranks per group: the group's triple plus any other stripe a programme touched
    group_stripes = {}
    for p in progs:
        g = p["group"]
        group_stripes.setdefault(g, set(p["stripes"])).update(s["pos"] for s in p["prog"])
    rank = {g: {s: i + 1 for i, s in enumerate(sorted(ss))} for g, ss in group_stripes.items()}
    nstripes = max(len(r) for r in rank.values())
    segs, wholes = {}, {}
    for pi, p in enumerate(progs):
        rk = rank[p["group"]]
        norm = [(s["op"], s["kind"], rk[s["pos"]]) for s in p["prog"]]
        if norm:
            wholes.setdefault(tuple(norm), []).append(pi)
        for off, steps in _segments(p["prog"], p["stuck"]):
            key = tuple((s["op"], s["kind"], rk[s["pos"]]) for s in steps)
            segs.setdefault(key, []).append((pi, off))
    seg_keys = sorted(segs)
    whole_keys = sorted(wholes)
    rnd = random.Random(seed * 7919 + 13)
    thorough = tier == "thorough"

    def connected(keys):
        sets = [_stripes_of(k) for k in keys]
        comp, todo = {0}, [0]
        while todo:
            a = todo.pop()
            for b in range(len(sets)):
                if b not in comp and sets[a] & sets[b]:
                    comp.add(b)
                    todo.append(b)
        return len(comp) == len(sets)

    multi = [_is_multi([{"op": s[0]} for s in k]) for k in seg_keys]
    n = len(seg_keys)
    combos = {"single": [], "pair": [], "triple": [], "quad": [], "whole_pair": []}
    for i in range(n):
        if multi[i]:
            combos["single"].append([i])
    for i, j in itertools.combinations_with_replacement(range(n), 2):
        if (multi[i] or multi[j]) and connected([seg_keys[i], seg_keys[j]]):
            combos["pair"].append([i, j])
    cap3 = 60000 if thorough else 4000
    tri = [list(c) for c in itertools.combinations_with_replacement(range(n), 3)
           if any(multi[x] for x in c) and connected([seg_keys[x] for x in c])] if n <= 120 else None
    triples_total = len(tri) if tri is not None else None
    if tri is None:  # too many to enumerate: sample
        tri, seen = [], set()
        while len(tri) < cap3 and len(seen) < 20 * cap3:
            c = tuple(sorted(rnd.randrange(n) for _ in range(3)))
            if c in seen:
                continue
            seen.add(c)
            if any(multi[x] for x in c) and connected([seg_keys[x] for x in c]):
                tri.append(list(c))
    elif len(tri) > cap3:
        tri = rnd.sample(tri, cap3)
    combos["triple"] = tri
    if thorough and n <= 40:
        quad = [list(c) for c in itertools.combinations_with_replacement(range(n), 4)
                if any(multi[x] for x in c) and connected([seg_keys[x] for x in c])]
        if len(quad) > 30000:
            quad = rnd.sample(quad, 30000)
        combos["quad"] = quad
    # cross-check: sampled pairs of whole programmes
    capw = 3000 if thorough else 500
    m = len(whole_keys)
    wmulti = [any(_is_multi(st) for _, st in _segments([{"op": s[0], "kind": s[1], "pos": s[2]} for s in k], False)) for k in whole_keys]
    wp, seen = [], set()
    cand = [i for i in range(m) if wmulti[i]] or list(range(m))
    tries = 0
    while cand and len(wp) < capw and tries < 20 * capw:
        tries += 1
        a, b = rnd.choice(cand), rnd.randrange(m)
        c = tuple(sorted((a, b)))
        if c in seen:
            continue
        seen.add(c)
        if _stripes_of(whole_keys[a]) & _stripes_of(whole_keys[b]):
            wp.append([n + c[0], n + c[1]])
    combos["whole_pair"] = wp
    used_wholes = sorted({x for c in wp for x in c})
    # TLC input: segments 1..n, then the whole programmes that occur in a sampled pair (renumbered)
    remap = {x: n + k for k, x in enumerate(used_wholes)}
    tlc_progs = [[{"op": s[0], "kind": s[1], "pos": s[2]} for s in k] for k in seg_keys]
    tlc_progs += [[{"op": s[0], "kind": s[1], "pos": s[2]} for s in whole_keys[x - n]] for x in used_wholes]
    all_combos = []
    for kind in ("single", "pair", "triple", "quad"):
        all_combos += [[x + 1 for x in c] for c in combos[kind]]
    all_combos += [[remap[x] + 1 for x in c] for c in combos["whole_pair"]]
    origins = {}
    for i, k in enumerate(seg_keys):
        origins[i + 1] = segs[k]
    for x in used_wholes:
        origins[remap[x] + 1] = [(pi, 0) for pi in wholes[whole_keys[x - n]]]
    return {"input": {"nstripes": nstripes, "progs": tlc_progs, "combos": all_combos},
            "origins": origins, "nseg": n, "nwhole": m, "rank": rank,
            "counts": {k: len(c) for k, c in combos.items()}, "triples_total": triples_total,
            "seg_keys": seg_keys}


# ------------------------------------------------------------------------------------------------ replay

def _pick_origins(members, model, obs, used_sigs):
    """Choose for every member (programme index of the TLC input) an observed (command, configuration): all in the
    same stripe group, preferring configurations without expiring keys, non-blocking commands, and command sets not
    replayed yet."""
    progs = obs["programmes"]

    def prio(o):
        p = progs[o[0]]
        # p["n"]: how often this programme was seen for its configuration (map iteration order can vary it): prefer
        # the usual behaviour, it is the one a replay will most likely meet again
        return ("X" in p["states"], p["blocking"], -p["n"], o[1], o[0])

    cands = [sorted(model["origins"][m], key=prio) for m in members]
    groups = sorted({progs[o[0]]["group"] for o in cands[0]})
    best = None
    for g in groups:
        per = []
        for c in cands:   # the best origin of every distinct command, so that different command sets get replayed
            seen, lst = set(), []
            for o in c:
                q = progs[o[0]]
                if q["group"] == g and q["cmd"] not in seen:
                    seen.add(q["cmd"])
                    lst.append(o)
            per.append(lst[:10])
        if not all(per):
            continue
        for choice in itertools.islice(itertools.product(*per), 400):
            sig = "+".join(sorted(progs[o[0]]["cmd"] for o in choice))
            if best is None:
                best = (choice, sig)
            if sig not in used_sigs:
                return choice, sig
    return best if best else (None, None)


def _replay_spec(dead, choice, model, obs):
    progs = obs["programmes"]
    stripes = progs[choice[0][0]]["stripes"]
    procs = []
    for k, (pi, off) in enumerate(choice):
        p = progs[pi]
        seglen = len(model["input"]["progs"][dead["combo"][k] - 1])
        pc = dead["pc"][k]
        procs.append({"form": p["form"], "kids": p["kids"], "states": p["states"], "prog": p["prog"], "skip": off,
                      "pc": (off + pc - 1) if pc <= seglen else len(p["prog"])})
    sched = [{"p": s["p"] - 1, "i": choice[s["p"] - 1][1] + s["i"] - 1, "a": s["a"]} for s in dead["sched"]]
    return {"stripes": stripes, "procs": procs, "sched": sched}


def _run_replay(tool, spec, d, idx):
    path = os.path.join(d, "replay-%d.json" % idx)
    json.dump(spec, open(path, "w"))
    last = None
    for attempt in range(6):
        try:
            p = subprocess.run([tool, "replay", "-spec", path], stdout=subprocess.PIPE, stderr=subprocess.PIPE, timeout=60)
        except subprocess.TimeoutExpired:
            last = {"result": "inconclusive", "mismatch": "lockobs replay timed out"}
            continue
        out = p.stdout.decode("utf-8", "replace")
        rec = None
        for line in out.splitlines():
            if line.startswith("REPLAY "):
                rec = json.loads(line[7:])
        if rec is None:
            last = {"result": "died", "mismatch": "lockobs replay died (rc=%s): %s" % (p.returncode, p.stderr.decode("utf-8", "replace")[-800:])}
            continue
        rec["attempts"] = attempt + 1
        last = rec
        if rec["result"] == "deadlock":
            return rec
        if rec["result"] == "completed" and attempt >= 1:
            return rec
    return last


# ------------------------------------------------------------------------------------------------ entry point

def run(v, cov, tier, seed):
    t0 = time.time()
    thorough = tier == "thorough"
    tool = ks.build_tool("lockobs")
    t_build = time.time() - t0
    sanity, sanity_steps = {}, {}
    threads = [threading.Thread(target=model_sanity, args=(sanity,))]
    if thorough:   # the same hand-written programmes without the eager-release reduction
        threads.append(threading.Thread(target=model_sanity, args=(sanity_steps, "MC_LocksModel_steps.cfg")))

    class _Th:
        def start(self):
            for t in threads:
                t.start()

        def join(self):
            for t in threads:
                t.join()
    th = _Th()
    d = common.scratch("locks-")
    # ---- 1. observe
    obs_path = os.path.join(d, "obs.json")
    t1 = time.time()
    p = subprocess.run([tool, "observe", "-tier", tier, "-seed", str(seed), "-out", obs_path, "-reps", "5" if thorough else "3",
                        "-workers", "8"], stdout=subprocess.PIPE, stderr=subprocess.PIPE, timeout=900)
    th.start()   # after the observation: its clock windows should not compete with a JVM
    if p.returncode != 0 or not os.path.exists(obs_path):
        th.join()
        common.die_infra("lockobs observe failed (rc=%s):\n%s" % (p.returncode, (p.stdout + p.stderr).decode("utf-8", "replace")[-3000:]))
    obs = json.load(open(obs_path))
    t_obs = time.time() - t1
    progs = obs["programmes"]
    if not progs or sum(1 for q in progs if len(q["prog"]) >= 4) < 20:
        th.join()
        common.die_infra("lockobs observed no multi-step lock programmes: is the H1 hook (memdb.VerifLockHook) compiled in?")
    hazard_lines = {}
    for q in progs:
        for h in q["hazards"]:
            hazard_lines.setdefault((q["cmd"], h), []).append(q)
    divergences = 0
    for (cmd, h), qs in sorted(hazard_lines.items())[:40]:
        q = qs[0]
        print("DIVERGENCE property=%s kind=lock-programme-hazard cmd=%s hazard=%s configs=%d e.g. [%s] programme=[%s]" % (
            PROP, cmd, h, len(qs), q["config"], _show_prog(q["prog"])), flush=True)
    divergences += len(hazard_lines)
    # ---- 2. model
    model = build_model(obs, tier, seed)
    nseg = model["nseg"]
    all_combos = model["input"]["combos"]
    tlc_stats = {"distinct": 0, "generated": 0, "wall": 0.0, "runs": 0}

    def tlc_on(combos, name, cfg="MC_Locks.cfg", workers=8, count=True):
        """Run MC_Locks on the given compositions; returns the printed DEADLOCK records."""
        path = os.path.join(d, "locks_input_%s.json" % name)
        json.dump(dict(model["input"], combos=combos), open(path, "w"))
        r = common.run_tlc("MC_Locks", cfg=cfg, workers=workers, heap="3g", extra_env={"LOCKS": path}, timeout=900 if thorough else 240,
                           jvm=FAST_JVM if len(combos) < 5000 else ())
        if r.timed_out or r.rc != 0 or r.violated or "Model checking completed. No error" not in r.out:
            common.die_infra("TLC on MC_Locks (%s, %s) did not complete (rc=%s violated=%s timed_out=%s):\n%s" % (name, cfg, r.rc, r.violated, r.timed_out, r.out[-3000:]))
        inp = _parse_printed(r.out, "INPUT")
        if not inp or inp[0]["combos"] != len(combos) or inp[0]["progs"] != len(model["input"]["progs"]):
            common.die_infra("MC_Locks did not read the observed programmes (INPUT line %s)" % (inp,))
        if count:
            tlc_stats["distinct"] += r.distinct
            tlc_stats["generated"] += r.generated
            tlc_stats["wall"] += r.wall
            tlc_stats["runs"] += 1
        return _parse_printed(r.out, "DEADLOCK"), r

    records = []
    if not hazard_lines:
        # no programme shows a hazard (the unchanged tree): ascending, non-repeating acquisition cannot deadlock, TLC
        # confirms it on all compositions in one run
        steps_res = {}
        if thorough:   # cross-check of the eager-release reduction on the observed instance itself (segment compositions)
            seg_only = [c for c in all_combos if all(x <= nseg for x in c)]
            t2 = threading.Thread(target=lambda: steps_res.update(r=tlc_on(seg_only, "steps", cfg="MC_Locks_steps.cfg", workers=4, count=False)))
            t2.start()
        records, _ = tlc_on(all_combos, "all")
        if thorough:
            t2.join()
            a = {tuple(x["combo"]) for x in records if all(y <= nseg for y in x["combo"])}
            b = {tuple(x["combo"]) for x in steps_res["r"][0]}
            if a != b:
                common.die_infra("Locks.tla: reduced and step-by-step runs disagree on the observed programmes: %s" % (sorted(a ^ b)[:5],))
            sanity["observed_instance_step_by_step_states"] = steps_res["r"][1].distinct
    else:
        # hazards were seen: singles, pairs and whole-programme pairs first; then only the larger compositions that do
        # not contain an already deadlocking one (a deadlocked composition stays deadlocked when processes are added)
        small = [c for c in all_combos if len(c) <= 2]
        records, _ = tlc_on(small, "small")
        dead_small = {tuple(x["combo"]) for x in records}

        def has_dead_sub(c):
            for k in (1, 2):
                for cc in itertools.combinations(c, k):
                    if tuple(cc) in dead_small:
                        return True
            return False
        large = [c for c in all_combos if len(c) > 2 and not has_dead_sub(c)]
        b3_pruned = sum(1 for c in all_combos if len(c) > 2) - len(large)
        if large:
            more, _ = tlc_on(large, "large")
            records += more
        model["pruned_large"] = b3_pruned
    th.join()
    for sn in (sanity, sanity_steps):
        if "error" in sn:
            common.die_infra(sn["error"])
    if thorough:
        if sanity.get("dead") != sanity_steps.get("dead"):
            common.die_infra("Locks.tla: the eager-release reduction changes the set of deadlocking combinations of the hand-written programmes")
        sanity["step_by_step_states"] = sanity_steps["states"]
    sanity.pop("dead", None)

    class _Res:   # totals over the TLC runs on the observed instance
        distinct, generated, wall = tlc_stats["distinct"], tlc_stats["generated"], tlc_stats["wall"]
    res = _Res()
    dead = {}
    for dl in records:
        key = (tuple(dl["combo"]), tuple(dl["pc"]))
        if key not in dead or len(dl["sched"]) < len(dead[key]["sched"]):
            dead[key] = dl
    nseg = model["nseg"]
    seg_dead = {}   # combo -> shortest deadlock record, segment combos only
    whole_dead = {}
    for (combo, _), dl in dead.items():
        tgt = seg_dead if all(x <= nseg for x in combo) else whole_dead
        if combo not in tgt or len(dl["sched"]) < len(tgt[combo]["sched"]):
            tgt[combo] = dl
    if whole_dead and not seg_dead:
        common.die_infra("whole-programme pairs deadlock in the model but no combination of their segments does: the segment decomposition is broken (%s)" % (list(whole_dead)[:3],))

    # minimal segment combos only (a deadlocked combo stays deadlocked when processes are added)
    def sub_dead(c):
        for k in range(1, len(c)):
            for cc in itertools.combinations(c, k):
                if tuple(cc) in seg_dead:
                    return True
        return False
    minimal = sorted((c for c in seg_dead if not sub_dead(c)), key=lambda c: (len(c), len(seg_dead[c]["sched"]), c))
    b3 = {
        "observations": obs["observations"], "configurations": obs["configs"], "command_forms": obs["forms"],
        "stripe_groups": obs["groups"], "programmes_observed": len(progs),
        "distinct_whole_programmes": model["nwhole"], "distinct_segments": nseg,
        "inconclusive_expiry_configs": obs["inconclusive_expiry_configs"], "clock_rounds": obs["clock_rounds"],
        "compositions_checked": {"singles": model["counts"]["single"], "pairs": model["counts"]["pair"],
                                 "triples": model["counts"]["triple"], "triples_total": model["triples_total"],
                                 "quadruples": model["counts"]["quad"], "whole_programme_pairs_sampled": model["counts"]["whole_pair"]},
        "tlc_states": res.distinct, "tlc_states_generated": res.generated, "tlc_wall_s": round(res.wall, 1), "tlc_runs": tlc_stats["runs"],
        "larger_compositions_pruned_as_supersets_of_deadlocks": model.get("pruned_large", 0),
        "model_deadlock_states": len(dead), "model_deadlock_combos": len(seg_dead) + len(whole_dead),
        "minimal_deadlock_combos": len(minimal), "model_sanity": sanity,
        "hazards": len(hazard_lines), "replays": 0, "real_deadlocks": 0, "divergences": 0,
        "build_s": round(t_build, 1), "observe_s": round(t_obs, 1),
    }
    cov["states"] = cov.get("states", 0) + res.distinct
    cov["transitions"] = cov.get("transitions", 0) + res.generated
    if not cov.get("samples") or len(cov["samples"]) < 3:
        ex = next((q for q in progs if q["form"] == "SUNIONSTORE/3" and q["config"].startswith("2a.X")), progs[0])
        cov.setdefault("samples", []).append({"kind": "observed lock programme", "command": " ".join(ex["argv"]), "config": ex["config"],
                                              "programme": _show_prog(ex["prog"])})
    # ---- 3. replay
    if minimal:
        cap = 24 if thorough else 8
        used, jobs = set(), []
        for c in minimal:
            choice, sig = _pick_origins(c, model, obs, used)
            if choice is None:
                print("DIVERGENCE property=%s kind=model-deadlock-not-replayable combo=%s" % (PROP, [" ".join("%s%s%d" % s for s in model["seg_keys"][x - 1]) for x in c]), flush=True)
                divergences += 1
                continue
            if sig in used and len(jobs) >= cap // 2:
                continue
            used.add(sig)
            jobs.append((c, choice, sig, _replay_spec(seg_dead[c], choice, model, obs)))
            if len(jobs) >= cap:
                break
        print("B3: TLC found %d deadlocking combination(s) of observed lock programmes (%d minimal); replaying %d schedule(s) on the real code" % (
            len(seg_dead), len(minimal), len(jobs)), flush=True)
        with concurrent.futures.ThreadPoolExecutor(max_workers=4) as ex:
            results = list(ex.map(lambda j: _run_replay(tool, j[1][3], d, j[0]), enumerate(jobs)))
        for (c, choice, sig, spec), rec in zip(jobs, results):
            b3["replays"] += 1
            cmds = [progs[o[0]] for o in choice]
            detail = " ".join("%s[%s]" % (q["cmd"], q["config"]) for q in sorted(cmds, key=lambda q: (q["cmd"], q["config"])))
            segs = ["[" + " ".join(("+" if s[0] == "acq" else "-") + s[1] + str(s[2]) for s in model["seg_keys"][x - 1]) + "]" for x in c]
            if rec and rec.get("result") == "deadlock":
                b3["real_deadlocks"] += 1
                stuck = "; ".join("p%d `%s` holds %s waits for %s" % (s["p"], " ".join(s["argv"]), ",".join(s["holds"]) or "nothing", s["waiting_for"] or "?") for s in rec["stuck"])
                v.report({"branch": "lockorder." + sig, "kind": "deadlock", "detail": detail},
                         {"commands": rec.get("commands"), "stripes": spec["stripes"], "schedule": spec["sched"], "model_segments": segs,
                          "replay": rec, "spec": spec},
                         what="real deadlock: commands never returned (20 s watchdog, all gates open) after replaying TLC's schedule; %s; stripes not free: %s; ownership as predicted by the model: %s" % (
                             stuck, rec.get("stripes_not_free"), rec.get("as_predicted")))
            else:
                divergences += 1
                print("DIVERGENCE property=%s kind=model-deadlock-not-reproduced commands=%s detail=%s segments=%s replay=%s %s" % (
                    PROP, sig, detail, " ".join(segs), (rec or {}).get("result"), ((rec or {}).get("mismatch") or "")[:300]), flush=True)
    b3["divergences"] = divergences
    b3["wall_s"] = round(time.time() - t0, 1)
    cov["b3_lock_order"] = b3
    print("B3 lock order: %d observations of %d configurations -> %d distinct programmes, %d segments; TLC composed %d singles, %d pairs, %d triples/quadruples of segments (+%d sampled whole-programme pairs): %d states, %d deadlock combos; replays %d, real deadlocks %d, divergences %d; %.1fs" % (
        obs["observations"], obs["configs"], model["nwhole"], nseg, model["counts"]["single"], model["counts"]["pair"], model["counts"]["triple"] + model["counts"]["quad"],
        model["counts"]["whole_pair"], res.distinct, len(seg_dead) + len(whole_dead), b3["replays"], b3["real_deadlocks"], divergences, time.time() - t0), flush=True)
    return b3


if __name__ == "__main__":
    # standalone: only the B3 part of checks/C13.py (used by selftest/C13/run.sh); same verdict contract
    tier = common.tier_arg()
    v = common.Verdict(PROP)
    cov = {}
    run(v, cov, tier, common.seed())
    print(json.dumps(cov["b3_lock_order"], indent=1))
    if v.violations:
        sys.exit(1)
    print("OK property=%s (B3 only) tier=%s" % (PROP, tier))
    sys.exit(0)
