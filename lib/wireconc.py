"""C03, concurrent connections: every connection's reply stream is its own. Several connections request large, distinct
array replies (LRANGE / SMEMBERS / HGETALL / KEYS over values that encode the owner and the position) and read them
slowly through a small receive buffer, so that the server is still writing one reply while the handlers of the other
connections build and write theirs; fast connections issue many small array replies meanwhile. Every reply must decode
(independent decoder, lib/server.py) to exactly the expected value: one well-formed value per command, in order, with
exactly the stored bytes. A reply buffer shared between connections, a handler writing to the wrong socket or a
truncated write shows up as a malformed or foreign reply."""
import random, socket, threading, time
import server


def _conn(port, rcvbuf=None, timeout=20.0):
    s = socket.socket(socket.AF_INET, socket.SOCK_STREAM)
    if rcvbuf:
        s.setsockopt(socket.SOL_SOCKET, socket.SO_RCVBUF, rcvbuf)
    s.settimeout(timeout)
    s.connect(("127.0.0.1", port))
    return s


def _read_value(s, buf, slow, rnd):
    """read exactly one RESP value (decode attempts are spaced geometrically: the pure-Python decoder restarts from the
    beginning of the buffer, and the replies here are megabytes)"""
    next_try = 0
    deadline = time.time() + 60
    while True:
        if len(buf) >= next_try:
            try:
                v, p = server.decode(buf, 0)
                return v, buf[p:]
            except server.Incomplete:
                next_try = max(64, int(len(buf) * 1.6))
        s.settimeout(0.25)
        try:
            chunk = s.recv(16384 if slow else 262144)
        except (socket.timeout, TimeoutError):
            if time.time() > deadline:
                raise
            next_try = 0          # nothing more in flight: look at what we have
            continue
        if not chunk:
            raise ConnectionError("closed")
        buf += chunk


def _elem(i, j, size):
    head = ("c%d:e%d:" % (i, j)).encode()
    return head + bytes([33 + (i * 7 + j + k) % 90 for k in range(size - len(head))])


def run(seed=1, nslow=2, nfast=3, rounds=2, nelem=7000, size=1024, nsmall=3500):
    rnd0 = random.Random(seed)
    srv = server.Server()
    problems, stats = [], {"slow_connections": nslow, "fast_connections": nfast, "rounds": rounds, "large_replies": 0, "small_replies": 0, "bytes_checked": 0}
    try:
        c = srv.client(timeout=30.0)
        expect = {}
        for i in range(nslow):
            elems = [_elem(i, j, size) for j in range(nelem)]
            for off in range(0, nelem, 250):
                c.cmd("RPUSH", "big%d" % i, *elems[off:off + 250])
            expect[i] = elems
            members = [_elem(i, j, 40) for j in range(600)]
            for off in range(0, 600, 200):
                c.cmd("SADD", "bigset%d" % i, *members[off:off + 200])
            expect[("s", i)] = set(members)
        for i in range(nfast):
            sm = [_elem(100 + i, j, size) for j in range(nsmall)]
            for off in range(0, nsmall, 250):
                c.cmd("RPUSH", "small%d" % i, *sm[off:off + 250])
            c.cmd("HSET", "smallh%d" % i, *[x for j in range(6) for x in (("f%d" % j).encode(), _elem(200 + i, j, 20))])
        stop = threading.Event()
        lock = threading.Lock()

        def note(what):
            with lock:
                if len(problems) < 12:
                    problems.append(what)

        def slow(i):
            rnd = random.Random(seed * 100 + i)
            try:
                s = _conn(srv.port, rcvbuf=4096)
                buf = b""
                for r in range(rounds):
                    nonce = ("n%d-%d" % (i, r)).encode()
                    s.sendall(server.encode(["LRANGE", "big%d" % i, "0", "-1"]) + server.encode(["PING", nonce]) + server.encode(["SMEMBERS", "bigset%d" % i]))
                    # do not read for a while: the server fills the socket buffers and blocks in the middle of its write, with most of
                    # the reply (several megabytes) still in its own memory, while the other connections are served
                    time.sleep(0.35)
                    v, buf = _read_value(s, buf, True, rnd)
                    if v[0] != "*" or [x[1] for x in v[1]] != expect[i]:
                        got = v[1] if v[0] == "*" else []
                        bad = next((j for j, x in enumerate(got) if j >= len(expect[i]) or x[1] != expect[i][j]), len(got))
                        note({"kind": "foreign-or-corrupt-reply", "conn": "slow%d" % i, "cmd": "LRANGE big%d 0 -1" % i,
                              "detail": "reply differs from the stored list at element %d of %d (got %r)" % (bad, len(got), got[bad][1][:40] if bad < len(got) else None)})
                        return
                    v, buf = _read_value(s, buf, True, rnd)
                    if v[1] != nonce:
                        note({"kind": "misaligned", "conn": "slow%d" % i, "cmd": "PING", "detail": "expected echo %r, got %r" % (nonce, v)})
                        return
                    v, buf = _read_value(s, buf, True, rnd)
                    if v[0] != "*" or set(x[1] for x in v[1]) != expect[("s", i)] or len(v[1]) != len(expect[("s", i)]):
                        note({"kind": "foreign-or-corrupt-reply", "conn": "slow%d" % i, "cmd": "SMEMBERS bigset%d" % i, "detail": "members differ from the stored set"})
                        return
                    with lock:
                        stats["large_replies"] += 2
                        stats["bytes_checked"] += nelem * size + 600 * 40
                s.close()
            except server.Incomplete:
                pass
            except Exception as e:
                note({"kind": "malformed-or-lost-reply", "conn": "slow%d" % i, "cmd": "LRANGE/SMEMBERS", "detail": repr(e)[:300]})

        def fast(i):
            rnd = random.Random(seed * 100 + 50 + i)
            try:
                s = _conn(srv.port)
                buf = b""
                want_l = [_elem(100 + i, j, size) for j in range(nsmall)]
                want_h = {("f%d" % j).encode(): _elem(200 + i, j, 20) for j in range(6)}
                n = 0
                while not stop.is_set():
                    s.sendall(server.encode(["LRANGE", "small%d" % i, "0", "-1"]) + server.encode(["HGETALL", "smallh%d" % i]))
                    v, buf = _read_value(s, buf, False, rnd)
                    if v[0] != "*" or [x[1] for x in v[1]] != want_l:
                        note({"kind": "foreign-or-corrupt-reply", "conn": "fast%d" % i, "cmd": "LRANGE small%d 0 -1" % i, "detail": "reply differs from the stored list (%d elements)" % (len(v[1]) if v[0] == "*" else -1)})
                        return
                    v, buf = _read_value(s, buf, False, rnd)
                    flat = [x[1] for x in v[1]] if v[0] == "*" else []
                    if dict(zip(flat[0::2], flat[1::2])) != want_h:
                        note({"kind": "foreign-or-corrupt-reply", "conn": "fast%d" % i, "cmd": "HGETALL smallh%d" % i, "detail": "got %r" % (v,)[:300]})
                        return
                    n += 2
                    time.sleep(0.02)
                with lock:
                    stats["small_replies"] += n
                s.close()
            except Exception as e:
                note({"kind": "malformed-or-lost-reply", "conn": "fast%d" % i, "cmd": "LRANGE/HGETALL", "detail": repr(e)[:300]})

        ts = [threading.Thread(target=slow, args=(i,)) for i in range(nslow)]
        tf = [threading.Thread(target=fast, args=(i,)) for i in range(nfast)]
        for t in ts + tf:
            t.start()
        for t in ts:
            t.join(timeout=120)
        stop.set()
        for t in tf:
            t.join(timeout=30)
        if not srv.alive():
            problems.append({"kind": "process-death", "conn": "-", "cmd": "-", "detail": srv.tail(1200)})
        return problems, stats
    finally:
        srv.stop()


def subscribed_pipeline(seed=1, batches=40, min_pushes=1500, max_seconds=12.0):
    """A connection that is subscribed to a channel AND pipelines ordinary commands with replies larger than any write
    buffer, while other connections publish to that channel as fast as they can. Pushes may appear between replies, never
    inside one: the byte stream must decode into well-formed values, the replies complete and in request order, the
    pushes intact and in publish order."""
    srv = server.Server()
    problems, stats = [], {"batches": batches, "replies": 0, "pushes": 0}
    try:
        c = srv.client(timeout=20.0)
        elems = [_elem(7, j, 120) for j in range(90)]          # ~11 KB reply
        c.cmd("RPUSH", "sp-big", *elems)
        a = _conn(srv.port)
        a.sendall(server.encode(["SUBSCRIBE", "sp-ch"]))
        buf = b""
        v, buf = _read_value(a, buf, False, None)
        stop = threading.Event()

        def publisher(i):
            try:
                p = srv.client(timeout=20.0)
                n = 0
                while not stop.is_set():
                    p.cmd("PUBLISH", "sp-ch", "m%d-%06d" % (i, n))
                    n += 1
                p.close()
            except Exception:
                pass

        pubs = [threading.Thread(target=publisher, args=(i,)) for i in range(3)]
        for t in pubs:
            t.start()
        last = {}
        try:
            t_start = time.time()
            b = -1
            while True:
                b += 1
                # at least `batches` batches, and go on until enough pushes were interleaved (a slow machine publishes slowly)
                if b >= batches and (stats["pushes"] >= min_pushes or time.time() - t_start > max_seconds):
                    break
                n1, n2 = ("a%d" % b).encode(), ("b%d" % b).encode()
                a.sendall(server.encode(["PING", n1]) + server.encode(["LRANGE", "sp-big", "0", "-1"]) + server.encode(["PING", n2]) + server.encode(["LLEN", "sp-big"]))
                want = [("$", n1), ("*", [("$", e) for e in elems]), ("$", n2), (":", len(elems))]
                got = 0
                while got < len(want):
                    v, buf = _read_value(a, buf, False, None)
                    if v[0] == "*" and len(v[1]) == 3 and v[1][0] == ("$", b"message"):
                        stats["pushes"] += 1
                        who, num = v[1][2][1].split(b"-")
                        if v[1][1] != ("$", b"sp-ch") or last.get(who, -1) >= int(num):
                            problems.append({"kind": "push-corrupt-or-out-of-order", "conn": "subscriber", "cmd": "PUBLISH", "detail": repr(v)[:200]})
                            raise StopIteration
                        last[who] = int(num)
                        continue
                    if v != want[got]:
                        problems.append({"kind": "reply-corrupt", "conn": "subscriber", "cmd": ["PING", "LRANGE sp-big 0 -1", "PING", "LLEN"][got],
                                         "detail": "reply %d of batch %d differs from the expected value (a push or another reply was written into it?): got %s" % (got, b, repr(v)[:160])})
                        raise StopIteration
                    got += 1
                    stats["replies"] += 1
        except StopIteration:
            pass
        except Exception as e:
            problems.append({"kind": "malformed-or-lost-reply", "conn": "subscriber", "cmd": "pipeline", "detail": "the reply stream of the subscribed connection does not decode: " + repr(e)[:200]})
        stop.set()
        for t in pubs:
            t.join(timeout=20)
        if not srv.alive():
            problems.append({"kind": "process-death", "conn": "-", "cmd": "-", "detail": srv.tail(1200)})
        return problems, stats
    finally:
        srv.stop()


def subscriber_idle_reply(gaps=(2.6,)):
    """A subscribed connection that has received a push stays idle for a while and then issues ordinary commands: every
    command still gets its reply (whatever per-connection state delivering a push leaves behind - deadlines, buffers -
    must not outlive the push)."""
    srv = server.Server()
    problems, stats = [], {"gaps": list(gaps), "replies": 0}
    try:
        conns = []
        pub = srv.client(timeout=10.0)
        for i, gap in enumerate(gaps):
            s = _conn(srv.port, timeout=15.0)
            s.sendall(server.encode(["SUBSCRIBE", "idle-%d" % i]))
            v, buf = _read_value(s, b"", False, None)
            conns.append([s, buf, gap, i])
        for s, buf, gap, i in conns:
            pub.cmd("PUBLISH", "idle-%d" % i, "hello")
        for c in conns:
            v, c[1] = _read_value(c[0], c[1], False, None)      # the push
        t0 = time.time()
        for c in sorted(conns, key=lambda c: c[2]):
            s, buf, gap, i = c
            d = t0 + gap - time.time()
            if d > 0:
                time.sleep(d)
            try:
                nonce = ("idle-nonce-%d" % i).encode()
                s.sendall(server.encode(["PING", nonce]) + server.encode(["SET", "idle-key-%d" % i, "v"]) + server.encode(["GET", "idle-key-%d" % i]))
                want = [("$", nonce), ("+", b"OK"), ("$", b"v")]
                for w in want:
                    v, buf = _read_value(s, buf, False, None)
                    if v != w:
                        problems.append({"kind": "reply-wrong", "conn": "subscriber", "cmd": "PING/SET/GET after %.1f s idle" % gap, "detail": "expected %r, got %r" % (w, v)})
                        break
                    stats["replies"] += 1
            except Exception as e:
                problems.append({"kind": "reply-missing", "conn": "subscriber", "cmd": "PING/SET/GET",
                                 "detail": "a subscribed connection that received a push and then stayed idle for %.1f s gets no reply to its next commands (%s)" % (gap, repr(e)[:120])})
        return problems, stats
    finally:
        srv.stop()


# ---- mixed load: many connections, every command family, a handful of shared keys -----------------------------------------
def _mixed_cmd(rnd, keys, u):
    """One valid command over the shared keys (types get mixed up by RENAME / DEL / the STORE commands: WRONGTYPE answers are
    fine - only answering matters here)."""
    k = lambda: rnd.choice(keys)
    t = rnd.randrange(44)
    table = [
        lambda: ["SET", k(), u], lambda: ["GET", k()], lambda: ["APPEND", k(), u], lambda: ["INCR", k()], lambda: ["STRLEN", k()],
        lambda: ["MGET", k(), k(), k()], lambda: ["MSET", k(), u, k(), u], lambda: ["DEL", k(), k()], lambda: ["EXISTS", k(), k(), k()],
        lambda: ["RENAME", k(), k()], lambda: ["TYPE", k()], lambda: ["TTL", k()], lambda: ["EXPIRE", k(), "100"], lambda: ["PERSIST", k()],
        lambda: ["LPUSH", k(), u], lambda: ["RPUSH", k(), u, u], lambda: ["LPOP", k()], lambda: ["RPOP", k()], lambda: ["LRANGE", k(), "0", "-1"],
        lambda: ["LMOVE", k(), k(), "LEFT", "RIGHT"], lambda: ["LLEN", k()], lambda: ["LTRIM", k(), "0", "3"], lambda: ["LINDEX", k(), "0"],
        lambda: ["SADD", k(), u, "m"], lambda: ["SREM", k(), "m"], lambda: ["SMEMBERS", k()], lambda: ["SMOVE", k(), k(), "m"], lambda: ["SPOP", k()],
        lambda: ["SUNIONSTORE", k(), k(), k()], lambda: ["SINTERSTORE", k(), k(), k()], lambda: ["SDIFFSTORE", k(), k(), k()], lambda: ["SUNION", k(), k()],
        lambda: ["HSET", k(), "f", u], lambda: ["HGETALL", k()], lambda: ["HDEL", k(), "f"], lambda: ["HINCRBY", k(), "n", "1"], lambda: ["HKEYS", k()],
        lambda: ["ZADD", k(), "1", u], lambda: ["ZRANGE", k(), "0", "-1"], lambda: ["ZREM", k(), u], lambda: ["ZRANK", k(), u],
        lambda: ["XADD", k(), "*", "f", u], lambda: ["XRANGE", k(), "-", "+"], lambda: ["KEYS", "*"],
    ]
    return table[t % len(table)]()


def mixed_load(seed=1, conns=8, seconds=4.0, nkeys=6):
    """`conns` connections send random valid commands of every family over `nkeys` shared keys for `seconds`; afterwards a
    fresh connection must get an answer about every key. Verdicts: a command not answered within 12 s while the server
    process is alive (confirmed by fresh probes of every key with 5 s each), or the server died. Replies are not judged."""
    import random, threading
    srv = server.Server(shardnum=4)          # few stripes: the shared keys collide on them
    keys = ["mx%d" % i for i in range(nkeys)]
    probs, stats = [], {"connections": conns, "seconds": seconds, "commands": 0, "keys": nkeys}
    stop = time.time() + seconds
    hung, lock = [], threading.Lock()

    def worker(ci):
        rnd = random.Random(seed * 1000 + ci)
        n = 0
        try:
            c = srv.client(timeout=12.0)
        except Exception as e:
            with lock:
                hung.append((ci, ["<connect>"], repr(e)))
            return
        try:
            while time.time() < stop:
                argv = _mixed_cmd(rnd, keys, "c%dv%d" % (ci, n))
                try:
                    c.cmd(*argv)
                except Exception as e:
                    with lock:
                        hung.append((ci, argv, repr(e)))
                    return
                n += 1
        finally:
            with lock:
                stats["commands"] += n
            c.close()

    try:
        ths = [threading.Thread(target=worker, args=(i,)) for i in range(conns)]
        for t in ths:
            t.start()
        for t in ths:
            t.join(seconds + 40)
        if not srv.alive():
            probs.append({"kind": "server-died", "detail": "the server process died under mixed load: " + srv.tail(1200)})
            return probs, stats
        # fresh probes of every key (and of the server itself)
        dead = []
        for kname in keys + ["<ping>"]:
            for tmo in (5.0, 20.0):          # a second, longer try: a slow answer on a loaded machine is not a wedge
                try:
                    c = srv.client(timeout=tmo)
                    (c.cmd("PING") if kname == "<ping>" else c.cmd("TYPE", kname))
                    c.close()
                    break
                except Exception as e:
                    if tmo == 20.0:
                        dead.append(kname)
        stats["unanswered_under_load"] = len(hung)
        if dead and srv.alive():
            first = hung[0] if hung else (None, None, "")
            probs.append({"kind": "wedged", "keys_not_answering": dead, "first_unanswered": {"connection": first[0], "argv": first[1], "error": first[2]},
                          "detail": "after %d commands of mixed load on %d shared keys a fresh connection gets no answer to TYPE for %s within 5 s and again within 20 s (first command that was never answered: %s)" % (
                              stats["commands"], nkeys, ", ".join(dead), " ".join(first[1]) if first[1] else "none")})
        elif hung and not srv.alive():
            probs.append({"kind": "server-died", "detail": "the server process died under mixed load: " + srv.tail(1200)})
        return probs, stats
    finally:
        srv.stop()
