"""C16: the syncs the crash model of Wal.tla assumes, observed. `walsim syncprobe` runs a short WAL workload (entries, commit-only
saves, snapshots, term changes, segment cuts) under strace; after every call a MARK line says whether the call had to leave its data
durable. The system-call trace is replayed here: every write to a WAL file makes that file dirty, fdatasync / fsync of a descriptor
of the file makes it clean, and at every mark of a call that must be durable - and of every call during which a segment was cut -
no WAL file may be dirty. A dirty file at such a mark is a completed save whose bytes a power failure may still take away."""
import os, re, shutil, subprocess

import common

_CALL = re.compile(r"^(\d+)\s+(\w+)\((.*)\)\s+=\s+(-?\d+)")
_UNFIN = re.compile(r"^(\d+)\s+(\w+)\((.*) <unfinished \.\.\.>$")
_RESUM = re.compile(r"^(\d+)\s+<\.\.\. (\w+) resumed>(.*)\)\s+=\s+(-?\d+)")


def _events(path):
    pend = {}
    for line in open(path, errors="replace"):
        line = line.rstrip("\n")
        m = _UNFIN.match(line)
        if m:
            pend[(m.group(1), m.group(2))] = m.group(3)
            continue
        m = _RESUM.match(line)
        if m:
            args = pend.pop((m.group(1), m.group(2)), "") + m.group(3)
            yield m.group(2), args, int(m.group(4))
            continue
        m = _CALL.match(line)
        if m:
            yield m.group(2), m.group(3), int(m.group(4))


def check_trace(path, waldir):
    """-> (problems, stats)"""
    fdfile, pathfile, dirty, nextid = {}, {}, {}, [0]
    name = {}
    probs, stats = [], {"marks": 0, "durable_marks": 0, "cuts": 0, "wal_writes": 0, "syncs": 0}
    cut_since_mark = False

    def is_wal(p):
        return p.startswith(waldir) and (p.endswith(".wal") or p.endswith(".tmp")) and not p.endswith("/.touch")

    for call, args, ret in _events(path):
        if call == "openat" and ret >= 0:
            m = re.search(r'"([^"]+)"', args)
            if m and is_wal(m.group(1).replace(".tmp/", "/") if False else m.group(1)):
                p = m.group(1)
                if p not in pathfile:
                    pathfile[p] = nextid[0]
                    name[nextid[0]] = p
                    nextid[0] += 1
                fdfile[ret] = pathfile[p]
            else:
                fdfile.pop(ret, None)
        elif call == "close":
            try:
                fdfile.pop(int(args.split(",")[0]), None)
            except ValueError:
                pass
        elif call in ("rename", "renameat", "renameat2") and ret == 0:
            ps = re.findall(r'"([^"]+)"', args)
            if len(ps) == 2:
                old, new = ps
                # a directory rename (wal.tmp -> wal) moves every file below it
                for p in list(pathfile):
                    if p == old or p.startswith(old + "/"):
                        q = new + p[len(old):]
                        pathfile[q] = pathfile.pop(p)
                        name[pathfile[q]] = q
                if new.endswith(".wal"):
                    cut_since_mark = True
                    stats["cuts"] += 1
        elif call in ("write", "pwrite64") and ret > 0:
            try:
                fd = int(args.split(",")[0])
            except ValueError:
                continue
            if fd == 2 and '"MARK ' in args:
                m = re.search(r'"MARK (\d+) ([\w-]+) sync=(\w+)', args)
                stats["marks"] += 1
                must = (m and m.group(3).startswith("t")) or cut_since_mark
                if must:
                    stats["durable_marks"] += 1
                    bad = sorted(name[f] for f, d in dirty.items() if d and is_wal(name[f]))
                    if bad:
                        probs.append({"kind": "completed-save-not-synced", "mark": int(m.group(1)) if m else -1, "call": (m.group(2) if m else "?") + (" (ended with a segment cut)" if cut_since_mark else ""),
                                      "files": [os.path.basename(b) for b in bad],
                                      "detail": "call %s (%s%s) returned while bytes written to %s had not been made durable by fdatasync of that file" % (
                                          m.group(1) if m else "?", m.group(2) if m else "?", ", which cut the segment" if cut_since_mark else "", ", ".join(os.path.basename(b) for b in bad))})
                cut_since_mark = False
            elif fd in fdfile:
                dirty[fdfile[fd]] = True
                stats["wal_writes"] += 1
        elif call in ("fdatasync", "fsync") and ret == 0:
            try:
                fd = int(args.split(",")[0].strip())
            except ValueError:
                continue
            if fd in fdfile:
                dirty[fdfile[fd]] = False
                stats["syncs"] += 1
    return probs, stats


def run(walsim_bin):
    d = common.scratch("walsync-")
    tr = os.path.join(d, "trace.txt")
    if not shutil.which("strace"):
        return None, {"inconclusive": "strace is not installed"}
    p = subprocess.run(["strace", "-f", "-s", "64", "-e", "trace=openat,write,pwrite64,fdatasync,fsync,rename,renameat,renameat2,close", "-o", tr, walsim_bin, "syncprobe", os.path.join(d, "w")],
                       stdout=subprocess.PIPE, stderr=subprocess.PIPE, text=True, timeout=300, env=common.env())
    if "SYNCPROBE-DONE" not in p.stdout:
        return None, {"inconclusive": "the probe did not run to its end under strace: %s %s" % (p.stdout[-300:], p.stderr[-300:])}
    probs, stats = check_trace(tr, os.path.join(d, "w"))
    if stats["marks"] < 30 or stats["cuts"] < 1 or stats["syncs"] < 10 or stats["wal_writes"] < 20:
        return None, dict(stats, inconclusive="the system-call trace is not what the probe should produce (ptrace restricted?)")
    return probs, stats
