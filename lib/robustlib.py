"""Shared driver for the adversarial input space of spec/Robust.tla (C04: crashes / wedges; C03: reply framing of the same
inputs). The input space = token alphabet and mutation operators of Robust.tla (TLC prints them) + the Cmds sets of every
MC_* instance (TLC prints them); harness/cmd/robust executes every input on the real code in child processes with a progress
file, so that a process death is attributed to the input in progress."""
import concurrent.futures, json, os, resource, struct, subprocess
import common, ks

MC = [("MC_String", "MC_String.cfg"), ("MC_String", "MC_StringNum.cfg"), ("MC_List", "MC_List.cfg"), ("MC_Hash", "MC_Hash.cfg"),
      ("MC_Set", "MC_Set.cfg"), ("MC_Zset", "MC_Zset.cfg"), ("MC_Stream", "MC_Stream.cfg")]


def run(tier):
    """returns (anomalies, summary, restarts, maxargs)"""
    d = common.scratch("c04-")


    def harvest(job):
        module, cfg = job
        wd = common.scratch("tlc-c04-")
        if cfg is not None:
            txt = open(os.path.join(common.SPEC, cfg)).read().splitlines()
            txt = [("  Bound <- NoBound" if l.strip().startswith("Bound <-") else l) for l in txt
                   if not l.startswith("ACTION_CONSTRAINT") and not l.startswith("PROPERTY")]
            cfgname = "harvest_" + cfg
            open(os.path.join(wd, cfgname), "w").write("\n".join(txt) + "\n")
        else:
            cfgname = module + ".cfg"
        out = os.path.join(d, "in-%s-%s.txt" % (module, cfgname))
        res = common.run_tlc(module, cfg=cfgname, workdir=wd, workers=1, heap="2g", timeout=300, stdout_path=out)
        common.tlc_ok(res, "%s/%s" % (module, cfgname))
        return out


    with concurrent.futures.ThreadPoolExecutor(max_workers=8) as ex:
        files = list(ex.map(harvest, [("Robust", None)] + MC))
    inp = os.path.join(d, "robust.in")
    with open(inp, "wb") as f:
        for p in files:
            f.write(open(p, "rb").read())

    tool = ks.build_tool("robust")
    maxargs = 2 if tier == "quick" else 3
    progress = os.path.join(d, "progress")
    anomalies, summary = [], None
    start_from = 0
    restarts = 0


    def limit():
        resource.setrlimit(resource.RLIMIT_AS, (24 << 30, 24 << 30))


    while True:
        open(progress, "wb").write(struct.pack("<Q", 0))
        p = subprocess.run([tool, "-maxargs", str(maxargs), "-casesupto", "1", "-from", str(start_from), "-progress", progress],
                           stdin=open(inp, "rb"), stdout=subprocess.PIPE, stderr=subprocess.PIPE, preexec_fn=limit,
                           timeout=3000 if tier == "thorough" else 900)
        out = p.stdout.decode("utf-8", "replace")
        for line in out.splitlines():
            if line.startswith("SUMMARY "):
                summary = json.loads(line[8:])
            elif line.startswith("{"):
                anomalies.append(json.loads(line))
        if p.returncode == 0 and summary is not None:
            break
        if p.returncode == 2 and b"disagrees with Robust.tla" in p.stderr:
            common.die_infra(p.stderr.decode()[-2000:])
        # the child died (fatal error / out of memory / runtime abort): attribute it to the input in progress
        idx = struct.unpack("<Q", open(progress, "rb").read(8))[0]
        restarts += 1
        if idx == 0 or restarts > 40:
            common.die_infra("robust driver died without progress (rc=%s): %s" % (p.returncode, p.stderr.decode("utf-8", "replace")[-3000:]))
        tail = p.stderr.decode("utf-8", "replace")
        site = "unknown"
        for l in tail.splitlines():
            if "/repo/" in l or common.REPO + "/" in l:
                site = l.strip().split(" +0x")[0].replace(common.REPO + "/", "")
                break
        first = tail.strip().splitlines()[0] if tail.strip() else "rc=%s" % p.returncode
        anomalies.append({"kind": "died", "site": site, "argv": None, "detail": first[:300], "source": "?", "index": idx})
        start_from = idx

    return anomalies, summary, restarts, maxargs
