"""Keyspace-family machinery shared by C01 C03 C06 C09 C10 C11 C12 C17 C18:
B2 (random programmes -> ndjson trace -> TraceKs.tla) and B1 (MC edge tables -> Go walker)."""
import concurrent.futures, json, os, re, subprocess, sys, time
import common


def b2s(v):
    return bytes(v).decode("latin1")


def show_argv(argv):
    return " ".join(repr(b2s(a))[1:-1] if a else '""' for a in argv)


def show_reply(r):
    if r is None:
        return "?"
    k = r.get("k")
    if k in ("arr", "uarr", "upairs"):
        return k + "[" + ", ".join(show_reply(x) for x in r.get("a", [])) + "]"
    if k == "irange":
        return "int in %s..%s" % (b2s(r["a"][0]["v"]), b2s(r["a"][1]["v"]))
    if k == "err":
        return "err(%s)" % r.get("e")
    if k in ("nil", "any"):
        return k
    if k == "structure":
        return "STRUCTURE VIOLATED: %s" % r.get("e")
    if k == "zwin":
        return "zwin(%s)" % ",".join(show_reply(x) for x in r.get("a", []))
    return "%s(%s)" % (k, repr(b2s(r.get("v") or []))[1:-1])


_build_cache = {}


def build_tool(name, tags="verif", race=False):
    """Build harness/cmd/<name> into a per-run scratch dir (always from /repo's current tree)."""
    key = (name, tags, race)
    if key in _build_cache:
        return _build_cache[key]
    d = common.scratch("bin-")
    out = os.path.join(d, name + ("-race" if race else ""))
    common.go_build(os.path.join(common.ROOT, "harness"), "./cmd/" + name, out, tags=tags, race=race)
    _build_cache[key] = out
    return out


def parse_tlc_lines(out):
    """Extract MISMATCH / LABELS records printed by TraceKs (quoted TLA+ strings, one per line)."""
    mism, labels = [], set()
    for line in out.splitlines():
        if not line.startswith('"'):
            continue
        try:
            s = json.loads(line)
        except Exception:
            continue
        if s.startswith("MISMATCH "):
            mism.append(json.loads(s[9:]))
        elif s.startswith("LABELS "):
            labels.update(json.loads(s[7:]))
    return mism, labels


def validate_trace(trace_path, heap="3g", timeout=900, module="TraceKs"):
    res = common.run_tlc(module, workers=1, heap=heap, extra_env={"TRACE": trace_path}, timeout=timeout)
    mism, labels = parse_tlc_lines(res.out)
    nlines = sum(1 for _ in open(trace_path))
    if res.timed_out:
        common.die_infra("trace validation timed out on " + trace_path)
    ok = res.rc == 0 and re.search(r"Model checking completed. No error", res.out)
    if not ok:
        common.die_infra("trace validation failed to complete on %s (rc=%s):\n%s" % (trace_path, res.rc, res.out[-3000:]))
    return {"mismatches": mism, "labels": labels, "events": nlines, "states": res.distinct, "wall": res.wall}


def load_trace(path):
    return [json.loads(l) for l in open(path)]


def program_of(trace, p):
    return [e for e in trace if e.get("p") == p and e["ev"] == "cmd"]


def signature(m):
    """Failure signature of a MISMATCH record: branch label of the model's (first) outcome + mismatch kind."""
    got = m["got"]
    exp = m["exp"]
    br = exp[0]["b"] if exp else "?"
    if got["k"] == "panic":
        kind = "panic"
        detail = got.get("e", "")
    elif got["k"] == "structure":
        kind = "structure"
        detail = re.sub(r'"[^"]*"', "K", got.get("e", "")).split(":")[0][:60]
    else:
        ek = sorted(set(x["r"]["k"] if x["r"]["k"] != "err" else "err:" + x["r"]["e"] for x in exp))
        gk = got["k"] if got["k"] != "err" else "err:" + got.get("e", "")
        if gk not in ek and not (gk == "arr" and any(k in ("uarr", "upairs", "zwin", "arr") for k in ek)) \
                and not (gk == "int" and "irange" in ek):
            kind = "reply-kind"
            detail = "got %s want %s" % (gk, "|".join(ek))
        else:
            kind = "reply-value"
            detail = ""
    return {"branch": br, "kind": kind, "detail": detail}


WIRE_FAMILIES = ("string", "keys", "list", "hash", "set", "zset", "stream")


def run_b2(family, progs, steps, seed, nproc=8, tool="ksgen", extra=()):
    """Generate `progs` programmes split over nproc generator processes, validate each trace file with TLC in
    parallel. Returns dict(mismatches=[(record, trace_path)], labels=set, events=int, programmes=int)."""
    gen = build_tool(tool)
    d = common.scratch("b2-")
    per = max(1, progs // nproc)
    jobs = []
    for i in range(nproc):
        path = os.path.join(d, "%s-%d.ndjson" % (family, i))
        cmd = [gen, "-family", family, "-seed", str(seed * 1000 + i), "-progs", str(per), "-steps", str(steps),
               "-out", path, "-pbase", str(i * per)] + list(extra)
        if tool == "ksgen" and "-mode" not in extra and i % 2 == 1 and family in WIRE_FAMILIES:
            # every other generator process sends its programmes through the real connection handler (net.Pipe, pipelined in
            # random batches): arguments then arrive in the parser's buffers, replies are serialised by the handler - what a
            # value looks like in memory (spare capacity, aliasing with a read buffer) is part of what is tested
            cmd += ["-mode", "pipe", "-nononce"]
        jobs.append((path, cmd))
    deaths = []
    for path, cmd in list(jobs):
        p = subprocess.run(cmd, stdout=subprocess.PIPE, stderr=subprocess.STDOUT, text=True, timeout=600)
        if p.returncode != 0:
            if "-mode" in cmd and ("panic:" in p.stdout or "fatal error:" in p.stdout):
                # programmes sent through the real connection handler: a panic in an executor is not recovered there (nor in
                # the server), so the process dies - that is a finding about the code, not about the generator
                lines = [l for l in p.stdout.splitlines() if l.strip()]
                first = next((l for l in lines if l.startswith("panic:") or l.startswith("fatal error:")), lines[0] if lines else "")
                site = next((l.strip().split(" +0x")[0].replace(common.REPO + "/", "") for l in lines if common.REPO + "/" in l and "verif" not in l), "unknown")
                deaths.append({"first_line": first[:200], "site": site, "cmd": " ".join(cmd[1:]), "tail": p.stdout[-1500:]})
                jobs.remove((path, cmd))
                continue
            common.die_infra("generator failed: %s\n%s" % (" ".join(cmd), p.stdout[-2000:]))
    out = {"mismatches": [], "labels": set(), "events": 0, "programmes": per * len(jobs), "states": 0, "deaths": deaths}
    with concurrent.futures.ThreadPoolExecutor(max_workers=nproc) as ex:
        for (path, _), r in zip(jobs, ex.map(lambda j: validate_trace(j[0]), jobs)):
            out["labels"] |= r["labels"]
            out["events"] += r["events"]
            out["states"] += r["states"]
            for m in r["mismatches"]:
                out["mismatches"].append((m, path))
    return out


def run_ttl_random(n, seed):
    """Real-clock random ttl programmes + the replaced-deadline programmes of harness/cmd/ttltour, validated by TraceKs.
    Returns dict(mismatches=[(record, path)], programmes, events)."""
    tool = build_tool("ttltour")
    d = common.scratch("ttlr-")
    trace = os.path.join(d, "ttl.ndjson")
    p = subprocess.run([tool, "-random", str(n), "-seed", str(seed), "-out", trace], stdin=subprocess.DEVNULL, stdout=subprocess.PIPE, stderr=subprocess.PIPE, text=True, timeout=600)
    if p.returncode != 0:
        common.die_infra("ttltour failed: " + p.stderr[-2000:])
    summ = json.loads([l for l in p.stdout.splitlines() if l.startswith("SUMMARY ")][0][8:])
    r = validate_trace(trace)
    return {"mismatches": [(m, trace) for m in r["mismatches"]], "programmes": summ["programmes"], "events": summ["events"]}


def explain(m, trace_path=None, context=6):
    """Human-readable description of a mismatch (with the preceding commands of its programme)."""
    lines = []
    if trace_path:
        tr = load_trace(trace_path)
        prog = [e for e in tr[: m["line"]] if e.get("p") == m["p"] and e["ev"] in ("cmd", "setup")]
        for e in prog[-context - 1:-1]:
            lines.append("      %s -> %s" % (show_argv(e["argv"]), show_reply(e["reply"])))
    lines.append("   >> %s -> got %s" % (show_argv(m["argv"]), show_reply(m["got"])))
    for x in m["exp"][:4]:
        lines.append("        model [%s]: %s" % (x["b"], show_reply(x["r"])))
    return "\n".join(lines)


def replay_of(m, trace_path):
    """Self-contained replay artefact: the programme prefix up to and including the failing command."""
    tr = load_trace(trace_path)
    prog = [e for e in tr[: m["line"]] if e.get("p") == m["p"] and e["ev"] in ("cmd", "setup")]
    return {"programme": [show_argv(e["argv"]) for e in prog],
            "programme_bytes": [e["argv"] for e in prog],
            "observed_reply": m["got"], "model_outcomes": m["exp"]}


# ------------------------------------------------------------------ B1: MC edge tables -> walker

def run_b1(module, cfg, workers=16, heap="6g", timeout=900, tour_args=()):
    """Run TLC on an MC_* instance with edge emission and pipe the table into the Go walker.
    Returns dict(failures=[...], summary={...}, tlc=dict(generated, distinct, wall))."""
    tour = build_tool("tour")
    wd = common.scratch("b1-")
    import shutil
    for f in os.listdir(common.SPEC):
        if f.endswith(".tla") or f.endswith(".cfg"):
            shutil.copy(os.path.join(common.SPEC, f), wd)
    meta = os.path.join(wd, "meta")
    tlc_cmd = ["java", "-Xmx" + heap, "-Xss64m", "-XX:+UseParallelGC", "-cp", common.TLA_CP, "tlc2.TLC", "-workers", str(workers),
               "-metadir", meta, "-noGenerateSpecTE", "-deadlock", "-config", cfg, module + ".tla"]
    t0 = time.time()
    tlc_log = os.path.join(wd, "tlc.log")
    # TLC stdout: EDGE/INIT/SETUP lines go to the walker, everything else to tlc.log
    tlc = subprocess.Popen(tlc_cmd, cwd=wd, env=common.env(), stdout=subprocess.PIPE, stderr=subprocess.STDOUT)
    walker = subprocess.Popen([tour] + list(tour_args), stdin=subprocess.PIPE, stdout=subprocess.PIPE, stderr=subprocess.PIPE)
    import threading
    wout = []

    def drain():
        for line in walker.stdout:
            wout.append(line.decode("utf-8", "replace"))
    th = threading.Thread(target=drain)
    th.start()
    with open(tlc_log, "wb") as lg:
        for line in tlc.stdout:
            if line.startswith(b'"'):
                try:
                    walker.stdin.write(line)
                except BrokenPipeError:
                    break
            else:
                lg.write(line)
            if time.time() - t0 > timeout:
                tlc.kill()
                walker.kill()
                common.die_infra("B1 timed out for " + cfg)
    tlc.wait()
    tlc_wall = time.time() - t0
    try:
        walker.stdin.close()
    except Exception:
        pass
    walker.wait()
    th.join()
    log = open(tlc_log, errors="replace").read()
    m = None
    for m in common._RE_STATES.finditer(log):
        pass
    if tlc.returncode != 0 or not m or "Model checking completed. No error" not in log:
        common.die_infra("TLC failed on %s/%s (rc=%s):\n%s" % (module, cfg, tlc.returncode, log[-3000:]))
    if walker.returncode != 0:
        common.die_infra("walker failed on %s (rc=%s): %s" % (cfg, walker.returncode, walker.stderr.read().decode()[-2000:]))
    failures, summary = [], None
    for line in wout:
        if line.startswith("SUMMARY "):
            summary = json.loads(line[8:])
        elif line.strip():
            failures.append(json.loads(line))
    if summary is None:
        common.die_infra("walker printed no summary for " + cfg)
    return {"failures": failures, "summary": summary,
            "tlc": {"generated": int(m.group(1)), "distinct": int(m.group(2)), "wall": tlc_wall}}


def b1_signature(f):
    return {"branch": f["branch"], "kind": {"reply": "reply-kind" if f["detail"] != "value" else "reply-value"}.get(f["kind"], f["kind"]),
            "detail": f["detail"] if f["kind"] != "state" else ""}


def family_check(prop, tier, b1_instances, b2_families, level_text, assumptions, b2_progs, b2_steps=30, label_filter=None, extra=None):
    """Generic check for a sequential-meaning property: B1 tours of the listed MC instances + B2 random
    programmes of the listed families.  label_filter(branch) -> True if a mismatch with that model branch
    belongs to this property (others are reported by the property that owns the command)."""
    v = common.Verdict(prop)
    seed = common.seed()
    cov = {"states": 0, "transitions": 0, "traces_validated_against_impl": 0, "samples": [], "b1": {}, "b2": {},
           "edges_replayed_on_impl": 0, "labels_passed": 0, "labels_total": 0}
    mine = label_filter or (lambda b: True)
    foreign = {}
    for (module, cfg) in b1_instances:
        r = run_b1(module, cfg)
        s = r["summary"]
        cov["states"] += r["tlc"]["distinct"]
        cov["transitions"] += r["tlc"]["generated"]
        cov["edges_replayed_on_impl"] += s["edges_tested"]
        cov["labels_passed"] += s["labels_passed"]
        cov["labels_total"] += s["labels_total"]
        cov["b1"][cfg] = {"tlc_states": r["tlc"]["distinct"], "tlc_transitions": r["tlc"]["generated"], "tlc_wall_s": round(r["tlc"]["wall"], 1),
                          "edges_tested": s["edges_tested"], "edges_failed": s["edges_failed"], "states_reached": s["states_reached"],
                          "labels_passed": s["labels_passed"], "labels_total": s["labels_total"], "impl_execs": s["execs"]}
        for f in r["failures"]:
            sig = b1_signature(f)
            if not mine(sig["branch"]):
                foreign[sig["branch"]] = foreign.get(sig["branch"], 0) + 1
                continue
            v.report(sig, {"instance": cfg, "path": f.get("path"), "cmd": f["cmd"], "got": f["got"], "expected": f["expected"],
                           "state_diff": f.get("state_diff")},
                     what="%s: after %s, %s -> %s %s" % (cfg, f.get("path"), f["cmd"], show_reply(f["got"]), f.get("state_diff") or ""))
    for fam in b2_families:
        deep = fam in ("zsetdeep", "listdeep", "streamdeep")   # long programmes on ONE object: deep trees / long lists / trimmed streams, structure checked after every command
        r = run_b2(fam, max(8, b2_progs // 4) if deep else b2_progs, 90 if deep else b2_steps, seed, nproc=8)
        cov["traces_validated_against_impl"] += r["programmes"]
        cov["b2"][fam] = {"programmes": r["programmes"], "events": r["events"], "labels": len(r["labels"]), "mismatching_programmes": len(r["mismatches"])}
        for m, path in r["mismatches"]:
            sig = signature(m)
            if not mine(sig["branch"]):
                foreign[sig["branch"]] = foreign.get(sig["branch"], 0) + 1
                continue
            v.report(sig, replay_of(m, path), what=explain(m, path))
        for dth in r.get("deaths", []):
            v.report({"branch": "handler.process", "kind": "process-death", "detail": dth["site"][:80]}, dth,
                     what="the process died while random %s programmes were sent through the connection handler: %s at %s" % (fam, dth["first_line"], dth["site"]))
        if r["programmes"] and not cov["samples"]:
            pass
        # one sample programme (first of the first file)
        if len(cov["samples"]) < 3:
            d = [f for f in os.listdir(os.path.dirname(path))] if r["mismatches"] else []
    cov["foreign_mismatches_left_to_owner"] = foreign
    if extra is not None:
        extra(v, cov, tier, seed)
    cov["samples"] = sample_cases(b1_instances, b2_families, seed)
    v.finish(tier, "model_checking", cov, assumptions)


def sample_cases(b1_instances, b2_families, seed):
    """A few actual cases written out for the evidence file."""
    out = []
    gen = build_tool("ksgen")
    d = common.scratch("sample-")
    for fam in b2_families[:2]:
        path = os.path.join(d, fam + ".ndjson")
        subprocess.run([gen, "-family", fam, "-seed", str(seed), "-progs", "1", "-steps", "8", "-out", path], stdout=subprocess.DEVNULL)
        tr = load_trace(path)
        out.append({"kind": "B2 programme (" + fam + ")", "commands": ["%s -> %s" % (show_argv(e["argv"]), show_reply(e["reply"])) for e in tr if e["ev"] != "reset"][:14]})
    for (module, cfg) in b1_instances[:2]:
        out.append({"kind": "B1 instance", "module": module, "cfg": cfg})
    return out
