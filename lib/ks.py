"""Keyspace-family machinery shared by C01 C03 C06 C09 C10 C11 C12 C17 C18:
B2 (random programmes -> ndjson trace -> TraceKs.tla) and B1 (MC edge tables -> Go walker)."""
import concurrent.futures, json, os, re, subprocess, sys, time
import common


def b2s(v):
    return bytes(v).decode("latin1")


def show_argv(argv):
    return " ".join(repr(b2s(a))[1:-1] if a else '""' for a in argv)


def show_reply(r):
    if r is None:
        return "?"
    k = r.get("k")
    if k in ("arr", "uarr", "upairs"):
        return k + "[" + ", ".join(show_reply(x) for x in r.get("a", [])) + "]"
    if k == "irange":
        return "int in %s..%s" % (b2s(r["a"][0]["v"]), b2s(r["a"][1]["v"]))
    if k == "err":
        return "err(%s)" % r.get("e")
    if k in ("nil", "any"):
        return k
    if k == "zwin":
        return "zwin(%s)" % ",".join(show_reply(x) for x in r.get("a", []))
    return "%s(%s)" % (k, repr(b2s(r.get("v", [])))[1:-1])


_build_cache = {}


def build_tool(name, tags="verif"):
    """Build harness/cmd/<name> into a per-run scratch dir (always from /repo's current tree)."""
    key = (name, tags)
    if key in _build_cache:
        return _build_cache[key]
    d = common.scratch("bin-")
    out = os.path.join(d, name)
    common.go_build(os.path.join(common.ROOT, "harness"), "./cmd/" + name, out, tags=tags)
    _build_cache[key] = out
    return out


def parse_tlc_lines(out):
    """Extract MISMATCH / LABELS records printed by TraceKs (quoted TLA+ strings, one per line)."""
    mism, labels = [], set()
    for line in out.splitlines():
        if not line.startswith('"'):
            continue
        try:
            s = json.loads(line)
        except Exception:
            continue
        if s.startswith("MISMATCH "):
            mism.append(json.loads(s[9:]))
        elif s.startswith("LABELS "):
            labels.update(json.loads(s[7:]))
    return mism, labels


def validate_trace(trace_path, heap="3g", timeout=900, module="TraceKs"):
    res = common.run_tlc(module, workers=1, heap=heap, extra_env={"TRACE": trace_path}, timeout=timeout)
    mism, labels = parse_tlc_lines(res.out)
    nlines = sum(1 for _ in open(trace_path))
    if res.timed_out:
        common.die_infra("trace validation timed out on " + trace_path)
    ok = res.rc == 0 and re.search(r"Model checking completed. No error", res.out)
    if not ok:
        common.die_infra("trace validation failed to complete on %s (rc=%s):\n%s" % (trace_path, res.rc, res.out[-3000:]))
    return {"mismatches": mism, "labels": labels, "events": nlines, "states": res.distinct, "wall": res.wall}


def load_trace(path):
    return [json.loads(l) for l in open(path)]


def program_of(trace, p):
    return [e for e in trace if e.get("p") == p and e["ev"] == "cmd"]


def signature(m):
    """Failure signature of a MISMATCH record: branch label of the model's (first) outcome + mismatch kind."""
    got = m["got"]
    exp = m["exp"]
    br = exp[0]["b"] if exp else "?"
    if got["k"] == "panic":
        kind = "panic"
        detail = got.get("e", "")
    else:
        ek = sorted(set(x["r"]["k"] if x["r"]["k"] != "err" else "err:" + x["r"]["e"] for x in exp))
        gk = got["k"] if got["k"] != "err" else "err:" + got.get("e", "")
        if gk not in ek and not (gk == "arr" and any(k in ("uarr", "upairs", "zwin", "arr") for k in ek)) \
                and not (gk == "int" and "irange" in ek):
            kind = "reply-kind"
            detail = "got %s want %s" % (gk, "|".join(ek))
        else:
            kind = "reply-value"
            detail = ""
    return {"branch": br, "kind": kind, "detail": detail}


def run_b2(family, progs, steps, seed, nproc=8, tool="ksgen", extra=()):
    """Generate `progs` programmes split over nproc generator processes, validate each trace file with TLC in
    parallel. Returns dict(mismatches=[(record, trace_path)], labels=set, events=int, programmes=int)."""
    gen = build_tool(tool)
    d = common.scratch("b2-")
    per = max(1, progs // nproc)
    jobs = []
    for i in range(nproc):
        path = os.path.join(d, "%s-%d.ndjson" % (family, i))
        cmd = [gen, "-family", family, "-seed", str(seed * 1000 + i), "-progs", str(per), "-steps", str(steps),
               "-out", path, "-pbase", str(i * per)] + list(extra)
        jobs.append((path, cmd))
    for path, cmd in jobs:
        p = subprocess.run(cmd, stdout=subprocess.PIPE, stderr=subprocess.STDOUT, text=True, timeout=600)
        if p.returncode != 0:
            common.die_infra("generator failed: %s\n%s" % (" ".join(cmd), p.stdout[-2000:]))
    out = {"mismatches": [], "labels": set(), "events": 0, "programmes": per * nproc, "states": 0}
    with concurrent.futures.ThreadPoolExecutor(max_workers=nproc) as ex:
        for (path, _), r in zip(jobs, ex.map(lambda j: validate_trace(j[0]), jobs)):
            out["labels"] |= r["labels"]
            out["events"] += r["events"]
            out["states"] += r["states"]
            for m in r["mismatches"]:
                out["mismatches"].append((m, path))
    return out


def explain(m, trace_path=None, context=6):
    """Human-readable description of a mismatch (with the preceding commands of its programme)."""
    lines = []
    if trace_path:
        tr = load_trace(trace_path)
        prog = [e for e in tr[: m["line"]] if e.get("p") == m["p"] and e["ev"] in ("cmd", "setup")]
        for e in prog[-context - 1:-1]:
            lines.append("      %s -> %s" % (show_argv(e["argv"]), show_reply(e["reply"])))
    lines.append("   >> %s -> got %s" % (show_argv(m["argv"]), show_reply(m["got"])))
    for x in m["exp"][:4]:
        lines.append("        model [%s]: %s" % (x["b"], show_reply(x["r"])))
    return "\n".join(lines)


def replay_of(m, trace_path):
    """Self-contained replay artefact: the programme prefix up to and including the failing command."""
    tr = load_trace(trace_path)
    prog = [e for e in tr[: m["line"]] if e.get("p") == m["p"] and e["ev"] in ("cmd", "setup")]
    return {"programme": [show_argv(e["argv"]) for e in prog],
            "programme_bytes": [e["argv"] for e in prog],
            "observed_reply": m["got"], "model_outcomes": m["exp"]}
