"""Deterministic schedule exploration (B1 for interleavings; C05, C13, C18).

Pipeline: a catalogue of small concurrent CASES (a setup, two or three threads of one command each, on keys of one
family) -> `sched observe` records the synchronisation programme of every command on the real code (hooks H1/H2) ->
TLC enumerates, from spec/Sched.tla instantiated with the observed programmes, every schedule with at most `maxpre`
preemptions -> `sched replay` realises each schedule on the real code with exactly one goroutine running at a time ->
the recorded histories (with a sequential read-back) are decided by TLC against the keyspace spec (TraceLin.tla).
"""
import concurrent.futures, itertools, json, os, random, subprocess
import common, ks, conc

K, K2 = "$A", "$B"     # placeholders resolved by the Go tool: $B = a key on another stripe; "$S" = another key on $A's stripe


def _pools():
    """family -> setups, single-key commands (C05), atomic multi-key commands (C13 atomicity) and multi-key commands
    that need not be atomic (C13 deadlock freedom only). Commands are functions of the thread's unique value u."""
    P = {}
    P["string"] = dict(
        setups=[[], [["SET", K, "5"]], [["SET", K, "5"], ["SET", K2, "7"]]],
        cmds=[lambda u: ["INCR", K], lambda u: ["DECRBY", K, "2"], lambda u: ["APPEND", K, u], lambda u: ["SETNX", K, u],
              lambda u: ["SET", K, u, "GET"], lambda u: ["SETRANGE", K, "1", u], lambda u: ["DEL", K], lambda u: ["GET", K],
              lambda u: ["INCRBYFLOAT", K, "0.5"], lambda u: ["SET", K, u, "XX"], lambda u: ["EXPIRE", K, "100"], lambda u: ["PERSIST", K],
              lambda u: ["SET", K, u, "KEEPTTL"], lambda u: ["TTL", K]],
        multi=[lambda u: ["MSET", K, u, K2, u], lambda u: ["MSET", K2, u, K, u], lambda u: ["RENAME", K, K2], lambda u: ["RENAME", K2, K]],
        nolin=[lambda u: ["MGET", K, K2], lambda u: ["MGET", K2, K], lambda u: ["DEL", K, K2], lambda u: ["DEL", K2, K], lambda u: ["EXISTS", K, K2, K]])
    # deadlines on one key: the options of EXPIRE are conditions on the deadline the key has WHEN THE COMMAND TAKES EFFECT; all
    # deadlines are far away, nothing expires during a case. Not part of C05's catalogue (families=... selects it for C06).
    P["deadline"] = dict(
        setups=[[["SET", K, "v"]], [["SET", K, "v"], ["EXPIRE", K, "1000"]]],
        cmds=[lambda u: ["EXPIRE", K, "500", "NX"], lambda u: ["EXPIRE", K, "600", "NX"], lambda u: ["EXPIRE", K, "700", "XX"], lambda u: ["EXPIRE", K, "2000", "GT"],
              lambda u: ["EXPIRE", K, "1500", "GT"], lambda u: ["EXPIRE", K, "300", "LT"], lambda u: ["EXPIRE", K, "5000"], lambda u: ["PERSIST", K],
              lambda u: ["SET", K, u], lambda u: ["SET", K, u, "KEEPTTL"], lambda u: ["SET", K, u, "EX", "4000"], lambda u: ["DEL", K]],
        multi=[], nolin=[])
    P["list"] = dict(
        setups=[[], [["RPUSH", K, "s1"]], [["RPUSH", K, "s1", "s2"]], [["RPUSH", K, "s1"], ["RPUSH", K2, "t1"]]],
        cmds=[lambda u: ["LPUSH", K, u], lambda u: ["RPUSH", K, u], lambda u: ["LPOP", K], lambda u: ["RPOP", K], lambda u: ["LREM", K, "0", "s1"],
              lambda u: ["LTRIM", K, "1", "-1"], lambda u: ["LSET", K, "0", u], lambda u: ["LLEN", K], lambda u: ["LRANGE", K, "0", "-1"],
              lambda u: ["LPUSHX", K, u], lambda u: ["DEL", K], lambda u: ["LPOP", K, "2"], lambda u: ["LINDEX", K, "0"]],
        multi=[lambda u: ["LMOVE", K, K2, "LEFT", "RIGHT"], lambda u: ["LMOVE", K2, K, "RIGHT", "LEFT"], lambda u: ["LMOVE", K, K, "LEFT", "RIGHT"],
               lambda u: ["RENAME", K, K2]],
        nolin=[lambda u: ["DEL", K2, K], lambda u: ["EXISTS", K, K2]])
    P["set"] = dict(
        # the last three: K is the product of a storing command with a single source (a value made by copying, not by SADD)
        setups=[[], [["SADD", K, "m1"]], [["SADD", K, "m1", "m2"]], [["SADD", K, "m1"], ["SADD", K2, "m2"]],
                [["SADD", K2, "m1", "m2"], ["SINTERSTORE", K, K2]], [["SADD", K2, "m1"], ["SDIFFSTORE", K, K2]], [["SADD", K2, "m1"], ["SUNIONSTORE", K, K2]]],
        cmds=[lambda u: ["SADD", K, u], lambda u: ["SADD", K, "m1"], lambda u: ["SREM", K, "m1"], lambda u: ["SPOP", K], lambda u: ["SCARD", K],
              lambda u: ["SISMEMBER", K, "m1"], lambda u: ["SMEMBERS", K], lambda u: ["DEL", K]],
        multi=[lambda u: ["SMOVE", K, K2, "m1"], lambda u: ["SMOVE", K2, K, "m2"], lambda u: ["SMOVE", K, K, "m1"], lambda u: ["RENAME", K, K2]],
        nolin=[lambda u: ["SUNIONSTORE", K, K2], lambda u: ["SUNIONSTORE", K2, K], lambda u: ["SUNIONSTORE", K, K, K2], lambda u: ["SINTERSTORE", K2, K, K2],
               lambda u: ["SDIFFSTORE", K, K2, K], lambda u: ["SDIFFSTORE", K2, K], lambda u: ["SUNION", K, K2], lambda u: ["SUNION", K2, K],
               lambda u: ["SINTER", K2, K], lambda u: ["SDIFF", K, K2], lambda u: ["DEL", K2, K]])
    P["hash"] = dict(
        setups=[[], [["HSET", K, "n", "1"]], [["HSET", K, "f", "x", "n", "1"]]],
        cmds=[lambda u: ["HSET", K, "f", u], lambda u: ["HSETNX", K, "f", u], lambda u: ["HDEL", K, "n"], lambda u: ["HDEL", K, "f", "n"],
              lambda u: ["HINCRBY", K, "n", "1"], lambda u: ["HINCRBYFLOAT", K, "n", "0.5"], lambda u: ["HLEN", K], lambda u: ["HGET", K, "n"],
              lambda u: ["HGETALL", K], lambda u: ["DEL", K]],
        multi=[], nolin=[])
    P["zset"] = dict(
        setups=[[], [["ZADD", K, "1", "a"]], [["ZADD", K, "1", "a", "2", "b"]]],
        cmds=[lambda u: ["ZADD", K, "3", u], lambda u: ["ZADD", K, "INCR", "1", "a"], lambda u: ["ZADD", K, "NX", "5", "a"], lambda u: ["ZREM", K, "a"],
              lambda u: ["ZREM", K, "a", "b"], lambda u: ["ZRANK", K, "a"], lambda u: ["ZRANGE", K, "0", "-1", "WITHSCORES"], lambda u: ["DEL", K]],
        multi=[], nolin=[])
    P["stream"] = dict(
        setups=[[], [["XADD", K, "1-1", "f", "s"]]],
        # explicit ids: thread i adds (i+2)-1, so concurrent adds collide on "not greater than the top item"
        cmds=[lambda u: ["XADD", K, "%d-1" % (2 + int(u[1:])), "f", u], lambda u: ["XADD", K, "MAXLEN", "1", "%d-2" % (2 + int(u[1:])), "f", u],
              lambda u: ["XADD", K, "NOMKSTREAM", "%d-3" % (2 + int(u[1:])), "f", u], lambda u: ["XADD", K, "2-1", "f", u],
              lambda u: ["XRANGE", K, "-", "+"], lambda u: ["DEL", K]],
        multi=[], nolin=[])
    return P


def catalogue(which, tier, seed, families=None):
    """which: 'single' (C05: single-key commands), 'multi' (C13: every case holds a multi-key command; cases with a
    command that need not be atomic are completion-only), 'stream' (C18). Returns list of case dicts."""
    rnd = random.Random(seed)
    P = _pools()
    cases = []
    reader = {"deadline": lambda k: ["GET", k], "string": lambda k: ["GET", k], "list": lambda k: ["LRANGE", k, "0", "-1"], "set": lambda k: ["SMEMBERS", k], "hash": lambda k: ["HGETALL", k],
              "zset": lambda k: ["ZRANGE", k, "0", "-1", "WITHSCORES"], "stream": lambda k: ["XRANGE", k, "-", "+"]}

    def add(fam, setup, cmds, nolin=False, same_stripe=False):
        threads = [[c("u%d" % i)] for i, c in enumerate(cmds)]
        used = {K} | {K2 for t in threads + [setup] for a in t if K2 in a}
        rb = [c for k in sorted(used) for c in (["TYPE", k], reader[fam](k), ["EXISTS", k], ["TTL", k])]
        cs = {"id": len(cases), "family": fam, "setup": setup, "threads": threads, "keys": sorted(used), "readback": rb, "tuple": -1, "nolin": nolin, "nthreads": len(threads)}
        if same_stripe:   # the second key shares the first key's lock stripe
            cs = json.loads(json.dumps(cs).replace('"$B"', '"$S"'))
        cases.append(cs)

    fams = ["stream"] if which == "stream" else [f for f in P if f != "deadline"]
    if families:
        fams = [f for f in P if f in families] if which != "stream" else fams
    if False:
        fams = [f for f in fams if f in families]
    ntri = 40 if tier == "quick" else 400
    for fam in fams:
        p = P[fam]
        single, multi, nolin = p["cmds"], p["multi"], p["nolin"]
        if which in ("single", "stream"):
            for setup in p["setups"]:
                for pr in itertools.combinations_with_replacement(single, 2):
                    add(fam, setup, pr)
            tri = [(s, t) for s in p["setups"] for t in itertools.combinations_with_replacement(single, 3)]
            rnd.shuffle(tri)
            for s, t in tri[:ntri]:
                add(fam, s, t)
        else:
            if not multi:
                continue
            for same in (False, True):
                for setup in p["setups"]:
                    for m in multi:
                        for c in single + multi:
                            add(fam, setup, (m, c), same_stripe=same)
                    for m in nolin:
                        for c in multi + nolin:
                            add(fam, setup, (m, c), nolin=True, same_stripe=same)
                tri = [(s, (m, c, d)) for s in p["setups"] for m in multi for c in single[:7] + multi for d in single[:7] + multi]
                tri += [(s, (m, c, d)) for s in p["setups"] for m in nolin for c in multi + nolin for d in multi + nolin]
                rnd.shuffle(tri)
                for s, t in tri[:ntri]:
                    add(fam, s, t, nolin=any(x in nolin for x in t), same_stripe=same)
    if tier == "quick":
        # every family keeps its share of pairs and triples
        by = {}
        for c in cases:
            by.setdefault((c["family"], c["nthreads"], c["nolin"]), []).append(c)
        cases = []
        for key, cs in sorted(by.items()):
            rnd.shuffle(cs)
            cases += cs[:(90 if key[1] == 2 else 25)]
    for i, c in enumerate(cases):
        c["id"] = i
    return cases


def _canon_tuple(progs):
    """Rename stripes by first occurrence so that cases with the same shape share one TLC tuple."""
    ren, out = {}, []
    for p in progs:
        q = []
        for s in p:
            pos = s["pos"]
            if s["op"] in ("acq", "rel"):
                if pos not in ren:
                    ren[pos] = len(ren) + 1
                pos = ren[pos]
            else:
                pos = 0
            q.append({"op": s["op"], "kind": s["kind"], "pos": pos})
        out.append(q)
    return out, max(1, len(ren))


def run(which, tier, seed, maxpre=2, maxpre3=1, nproc=8, families=None):
    """Returns dict with coverage numbers, anomalies, history files + map for TraceLin."""
    tool = ks.build_tool("sched")
    d = common.scratch("sched-")
    cases = catalogue(which, tier, seed, families)
    cpath = os.path.join(d, "cases.json")
    json.dump(cases, open(cpath, "w"))
    # ---- observe
    ppath = os.path.join(d, "progs.json")
    p = subprocess.run([tool, "observe", "-in", cpath, "-out", ppath], stdout=subprocess.PIPE, stderr=subprocess.PIPE, timeout=1200)
    if p.returncode != 0:
        # a panic in a command run alone is C04's / the family check's business; here it is an infrastructure stop
        common.die_infra("sched observe failed (rc=%s): %s" % (p.returncode, p.stderr.decode("utf-8", "replace")[-2000:]))
    obs = json.load(open(ppath))
    tuples, index, nstripes, notes = [], {}, 1, []
    for o, c in zip(obs, cases):
        notes += o.get("notes") or []
        canon, ns = _canon_tuple(o["progs"])
        nstripes = max(nstripes, ns)
        key = json.dumps(canon, sort_keys=True)
        if key not in index:
            index[key] = len(tuples) + 1
            tuples.append(canon)
        c["tuple"] = index[key]
    json.dump(cases, open(cpath, "w"))
    # ---- TLC: schedules per tuple
    inp = os.path.join(d, "sched_in.json")
    json.dump({"nstripes": nstripes, "maxpre": maxpre, "maxpre3": maxpre3, "tuples": tuples}, open(inp, "w"))
    scheds, stuck = {}, {}

    def on_line(line):
        if line.startswith('"SCHED ') or line.startswith('"STUCK '):
            s = json.loads(line)
            r = json.loads(s[6:])
            (stuck if s.startswith("STUCK") else scheds).setdefault(str(r["tup"]), []).append(r["sched"])
            if s.startswith("STUCK"):
                scheds.setdefault(str(r["tup"]), []).append(r["sched"])   # replayed too: the real code decides
            return True
        return False

    res = common.run_tlc("MC_Sched", workers=8, heap="4g", extra_env={"SCHED_IN": inp}, timeout=1500, line_cb=on_line)
    common.tlc_ok(res, "MC_Sched (schedule enumeration)")
    spath = os.path.join(d, "scheds.json")
    json.dump(scheds, open(spath, "w"))
    # ---- replay in child processes (a Go fatal error kills the process)
    n = len(cases)
    chunk = (n + nproc - 1) // nproc
    out = {"cases": n, "tuples": len(tuples), "schedules_enumerated": sum(len(v) for v in scheds.values()), "stuck_schedules": sum(len(v) for v in stuck.values()),
           "tlc_states": res.distinct, "replays": 0, "distinct_histories": 0, "followed_exactly": 0, "operations": 0, "anomalies": [], "deaths": [],
           "hist_files": [], "maps": {}, "observe_notes": notes[:10], "cases_by_id": {c["id"]: c for c in cases}}

    def one(i):
        lo, hi = i * chunk, min(n, (i + 1) * chunk)
        hp = os.path.join(d, "hist-%d.ndjson" % i)
        mp = os.path.join(d, "map-%d.json" % i)
        if lo >= hi:
            return i, hp, mp, None
        p = subprocess.run([tool, "replay", "-in", cpath, "-sched", spath, "-out", hp, "-map", mp, "-lo", str(lo), "-hi", str(hi), "-hbase", str(i * 1000000)],
                           stdout=subprocess.PIPE, stderr=subprocess.PIPE, timeout=3000)
        return i, hp, mp, p

    with concurrent.futures.ThreadPoolExecutor(max_workers=nproc) as ex:
        for i, hp, mp, p in ex.map(one, range(nproc)):
            if p is None:
                continue
            txt = p.stdout.decode("utf-8", "replace")
            summ = None
            for line in txt.splitlines():
                if line.startswith("SUMMARY "):
                    summ = json.loads(line[8:])
                elif line.startswith("{"):
                    out["anomalies"].append(json.loads(line))
            if p.returncode != 0 or summ is None:
                err = p.stderr.decode("utf-8", "replace")
                first = [l for l in err.splitlines() if l.strip()][:1]
                out["deaths"].append({"chunk": i, "first_line": first[0] if first else "rc=%s" % p.returncode, "stderr_tail": err[-1500:]})
                continue
            for k in ("replays", "distinct_histories", "followed_exactly", "operations"):
                out[k] += summ[k]
            if os.path.exists(hp) and os.path.getsize(hp) > 0:
                out["hist_files"].append(hp)
                for m in json.load(open(mp)):
                    out["maps"][m["h"]] = m
    return out


def family_extra(prop, family):
    """`extra` hook for ks.family_check: the family's own commands under every TLC-enumerated schedule (pairs and triples on
    one key, reply serialisation included) - the sequential-meaning properties also hold when two clients use the type."""
    def extra(v, cov, tier, seed):
        r = run("single", tier, seed, maxpre=2 if tier == "quick" else 3, maxpre3=1 if tier == "quick" else 2, families=[family])
        decide(r, v, prop, cov)
        # every pair of the family's single-key commands on one key, two clients, in a build with Go's race detector: commands
        # that touch the same memory with no lock ordering them (a reader that fills a cache or a scratch buffer in the value)
        profs = {"list": "list,queue", "string": "string,counter", "stream": "xstream"}.get(family, family)
        rp = conc.run_conc("pairs", 0, clients=2, ops=1, seed=seed, nproc=4, race=True, profiles=profs)
        for rc_ in rp["races"]:
            v.report({"branch": "conc.race", "kind": "data-race", "detail": " || ".join(sorted(rc_["sites"]))[:160]}, rc_,
                     what="unsynchronised accesses to the same memory by two %s commands on one key (Go race detector, %d reports): %s" % (family, rc_["count"], " and ".join(rc_["sites"])))
        for a in rp["anomalies"]:
            v.report({"branch": "conc." + a["profile"], "kind": a["kind"], "detail": a["detail"].split(":")[0][:60] if a["kind"] == "panic" else ""}, a,
                     what="command pair %d (%s): %s" % (a["h"], a["profile"], a["detail"][:400]))
        for dth in rp["deaths"]:
            v.report({"branch": "conc.process", "kind": "process-death", "detail": dth["first_line"][:80]}, dth, what="the process died during command pair %d: %s" % (dth["history"], dth["first_line"]))
        cov["race_detector_command_pairs"] = rp["histories"]
        cov["race_reports"] = sum(x["count"] for x in rp["races"])
    return extra


def decide(r, verdict, prop, cov):
    """Validate the histories of run() r with TraceLin and report into verdict. Updates cov."""
    for a in r["anomalies"]:
        verdict.report({"branch": "sched." + a["family"], "kind": a["kind"], "detail": a["detail"].split(":")[0][:60] if a["kind"] == "panic" else ""}, a,
                       what="deterministic schedule %s of case [%s]: %s %s" % (a["sched"], " | ".join(a["cmds"]), a["kind"], a["detail"][:300]))
    for dth in r["deaths"]:
        verdict.report({"branch": "sched.process", "kind": "process-death", "detail": dth["first_line"][:80]}, dth,
                       what="the process died during deterministic schedule replay: %s" % dth["first_line"])
    states = 0
    with concurrent.futures.ThreadPoolExecutor(max_workers=8) as ex:
        for path, (nonlin, st) in zip(r["hist_files"], ex.map(conc.validate_hist, r["hist_files"])):
            states += st
            for n in nonlin:
                m = r["maps"].get(n["h"], {})
                cs = r["cases_by_id"].get(m.get("case"), {})
                cmds = ["setup: " + " ".join(a) for a in cs.get("setup", [])] + ["t%d: %s" % (i + 1, " ".join(t[0])) for i, t in enumerate(cs.get("threads", []))]
                name = ks.b2s(n["argv"][0]).lower()
                verdict.report({"branch": "schedlin." + name, "kind": "non-linearizable", "detail": ""},
                               {"case": cs, "schedule": m.get("sched"), "history": conc.history_of(path, n["h"]), "failing_response": n},
                               what="schedule %s (thread opened at each step) of [%s]: no sequential order explains the reply %s of %s\n  %s" % (
                                   m.get("sched"), " | ".join(cmds), ks.show_reply(n["got"]), ks.show_argv(n["argv"]), "\n  ".join(conc.history_of(path, n["h"])[:30])))
    cov["sched_cases"] = r["cases"]
    cov["sched_programme_tuples"] = r["tuples"]
    cov["sched_schedules_enumerated_by_tlc"] = r["schedules_enumerated"]
    cov["sched_tlc_states"] = r["tlc_states"]
    cov["sched_replays_on_real_code"] = r["replays"]
    cov["sched_replays_following_the_model_exactly"] = r["followed_exactly"]
    cov["sched_distinct_histories_decided"] = r["distinct_histories"]
    cov["sched_stuck_schedules_in_model"] = r["stuck_schedules"]
    cov["states"] = cov.get("states", 0) + r["tlc_states"] + states
    cov["transitions"] = cov.get("transitions", 0) + r["tlc_states"] + states
    cov["traces_validated_against_impl"] = cov.get("traces_validated_against_impl", 0) + r["distinct_histories"]
    return cov
