"""B1 for spec/Recover.tla (C16; also run by C08): TLC enumerates every bounded behaviour of one node's persistence
(Ready structs -> durable steps, process crashes between any two steps, recovery after each crash) and checks
Acceptable / NothingLost / NothingInvented on the model; harness/cmd/recoversim replays every behaviour that a process
kill can produce on real directories through the real wal and snap packages and the node's own recovery path
(loadSnapshot + replayWAL via hook H8) and compares what was recovered with the model."""
import concurrent.futures, json, os, subprocess
import common, ks


# every behaviour is replayed twice: with segments nobody fills, and with wal.SegmentSizeBytes = 1 so that every Save that
# writes ends with a segment cut (file names carry the index after the last entry: Open at a snapshot picks files by name)
SEGSIZES = "262144,1"


def run(tier, verdict, prop, cov, nproc=8, as_observed=None):
    """as_observed="save_first": B3 - the real Ready loop was SEEN to make the hard state of a snapshot-carrying Ready durable
    before the snapshot; the model is instantiated with that order (MC_Recover_savefirst.cfg, no invariants: it violates
    Acceptable by design) and its behaviours are replayed to obtain a witness on real files."""
    cfg = "MC_Recover.cfg" if tier == "quick" else "MC_Recover_thorough.cfg"
    if as_observed == "save_first":
        cfg = "MC_Recover_savefirst.cfg"
    d = common.scratch("recover-")
    scen = os.path.join(d, "scen.ndjson")
    n = [0]
    fh = open(scen, "w")

    def on_line(line):
        if line.startswith('"RSCEN '):
            r = json.loads(json.loads(line)[6:])
            fh.write(json.dumps({"id": n[0], "steps": r["steps"]}) + "\n")
            n[0] += 1
            return True
        return False

    res = common.run_tlc("MC_Recover", cfg=cfg, workers=8, heap="6g", timeout=2400, line_cb=on_line)
    fh.close()
    common.tlc_ok(res, cfg)
    if as_observed:
        return _replay(tier, verdict, prop, cov, nproc, d, scen, n[0], res, {"as_observed": as_observed}, key="recover_model_as_observed")
    # the weakened variant (newest readable snapshot file, not checked against the WAL) must violate Acceptable: the
    # model tells the two apart
    weak = common.run_tlc("MC_Recover", cfg="MC_Recover_weak.cfg", workers=4, heap="2g", timeout=600, line_cb=lambda l: l.startswith('"RSCEN '))
    if weak.violated != "Acceptable":
        common.die_infra("MC_Recover_weak.cfg should violate Acceptable (got %s)" % weak.violated)
    return _replay(tier, verdict, prop, cov, nproc, d, scen, n[0], res, {"weakened_variant_violates": weak.violated})


def run_snaps(tier, verdict, prop, cov, nproc=8):
    """The snapshot-heavy instance (one term, up to four Readys, appends of up to four entries): local snapshots behind the
    last entry, commit-only saves and further snapshots in every order, replayed with a segment cut at every Save."""
    d = common.scratch("recover-snaps-")
    scen = os.path.join(d, "scen.ndjson")
    n = [0]
    fh = open(scen, "w")

    def on_line(line):
        if line.startswith('"RSCEN '):
            r = json.loads(json.loads(line)[6:])
            fh.write(json.dumps({"id": n[0], "steps": r["steps"]}) + "\n")
            n[0] += 1
            return True
        return False

    res = common.run_tlc("MC_Recover", cfg="MC_Recover_snaps.cfg" if tier == "quick" else "MC_Recover_snaps_thorough.cfg", workers=6, heap="6g", timeout=1800, line_cb=on_line)
    fh.close()
    common.tlc_ok(res, "MC_Recover_snaps*.cfg")
    quick = tier == "quick"
    # the weakened constant (SaveSnapshot always moves enti) must break NothingLost: the model depends on the rule
    weak = common.run_tlc("MC_Recover", cfg="MC_Recover_snaps_enti.cfg", workers=4, heap="3g", timeout=900, line_cb=lambda l: l.startswith('"RSCEN '))
    if weak.violated not in ("NothingLost", "Acceptable"):
        common.die_infra("MC_Recover_snaps_enti.cfg should violate NothingLost (got %s)" % weak.violated)
    # (a) behaviours without model-chosen cuts, with a cut at the end of EVERY Save (two or more snapshots). A cut syncs, so
    # records the model holds unsynced are durable here (the sibling rule accepts that); behaviours with a damaged snapshot
    # file are left to (b): whether a fall-back exists depends on what was durable, which this mode changes
    _replay(tier, verdict, prop, cov, nproc, d, scen, n[0], res, {"segment_size": 1, "min_wal_snapshots": 2, "model_cuts": 0},
            key="recover_model_snapshots_cut_everywhere", segsizes="1", more=["-minsnaps", "2", "-maxcuts", "0", "-maxdamage", "0"])
    # (b) the cuts where the model put them (at most two per behaviour), damaged newest snapshot files included
    pick = 6 if quick else 1
    return _replay(tier, verdict, prop, cov, nproc, d, scen, n[0], res, {"min_model_cuts": 1, "one_behaviour_in": pick, "weakened_enti_rule_violates": weak.violated},
                   key="recover_model_snapshots", segsizes="262144", more=["-mincuts", "1", "-minsnaps", "1" if quick else "0", "-pick", str(pick), "-seed", str(common.seed())])


def _replay(tier, verdict, prop, cov, nproc, d, scen, total, res, extra, key="recover_model", segsizes=None, more=()):
    tool = ks.build_tool("recoversim")
    chunk = (total + nproc - 1) // nproc
    out = dict({"tlc_states": res.distinct, "tlc_transitions": res.generated, "behaviours": total, "replayed": 0, "recoveries_compared": 0,
                "not_realisable_by_process_kill": 0, "findings": 0}, **extra)

    def one(i):
        lo, hi = i * chunk, min(total, (i + 1) * chunk)
        if lo >= hi:
            return None
        work = os.path.join(d, "w%d-%s" % (i, key))
        os.makedirs(work)
        return subprocess.run([tool, "run", "-scen", scen, "-work", work, "-lo", str(lo), "-hi", str(hi), "-segsizes", segsizes or SEGSIZES] + list(more), stdout=subprocess.PIPE, stderr=subprocess.PIPE,
                              timeout=3000, env=common.env())

    seen = set()
    with concurrent.futures.ThreadPoolExecutor(max_workers=nproc) as ex:
        for p in ex.map(one, range(nproc)):
            if p is None:
                continue
            summ = None
            for line in p.stdout.decode("utf-8", "replace").splitlines():
                if line.startswith("SUMMARY "):
                    summ = json.loads(line[8:])
                elif line.startswith("{"):
                    f = json.loads(line)
                    out["findings"] += 1
                    if f["kind"] == "mismatch" and _sibling_explains(scen, f):
                        # records that were handed to the WAL without a sync may or may not have reached the file when the
                        # process died (the page writer flushes whole pages): the model has one behaviour per possibility
                        # (Crash(n)); the real outcome is one of them - not a finding
                        out["explained_by_partial_flush"] = out.get("explained_by_partial_flush", 0) + 1
                        continue
                    if f["kind"] == "mismatch":
                        why = _clauses(f)
                        if not why:
                            # differs from the model but every clause of the property holds (e.g. an older snapshot the WAL vouches for
                            # and more entries replayed): a conformance divergence, not a violation
                            out["divergences"] = out.get("divergences", 0) + 1
                            if out["divergences"] <= 3:
                                print("DIVERGENCE property=%s recovery differs from Recover.tla but satisfies Acceptable/NothingLost/NothingInvented: expected %s got %s" % (
                                    prop, json.dumps(f.get("expected")), json.dumps(f.get("got"))), flush=True)
                            continue
                        f["clauses_violated"] = why
                        f["detail"] = "; ".join(why)
                    last_ops = [s["op"] for s in f["steps"] if s["op"] not in ("recover",)][-4:]
                    sig = {"branch": "recover." + f["kind"], "kind": f["kind"], "detail": "/".join(last_ops)}
                    sk = json.dumps(sig)
                    if sk in seen or len(seen) > 12:
                        continue
                    seen.add(sk)
                    steps = " ; ".join(_show(s) for s in f["steps"])
                    verdict.report(sig, f, what="node-level recovery (real wal + snap directories, loadSnapshot + replayWAL): after [%s] %s; model expects %s, recovered %s" % (
                        steps, f["detail"][:300], json.dumps(f.get("expected")), json.dumps(f.get("got"))))
            if summ is None or p.returncode != 0:
                common.die_infra("recoversim failed (rc=%s): %s" % (p.returncode, p.stderr.decode("utf-8", "replace")[-1500:]))
            for k in ("replayed", "recoveries_compared", "not_realisable_by_process_kill"):
                out[k] += summ[k]
    if out.get("divergences") and not verdict.violations and key in ("recover_model", "recover_model_snapshots", "recover_model_snapshots_cut_everywhere"):
        common.die_infra("recovery diverges from Recover.tla in %d behaviours without violating a clause of the property (see DIVERGENCE lines)" % out["divergences"])
    cov[key] = out
    if key != "recover_model_snapshots_cut_everywhere":      # the same TLC run feeds two replays
        cov["states"] = cov.get("states", 0) + res.distinct
        cov["transitions"] = cov.get("transitions", 0) + res.generated
    cov["traces_validated_against_impl"] = cov.get("traces_validated_against_impl", 0) + out["replayed"]
    return out


_sib_index = {}


def _norm_steps(steps):
    out = []
    for st in steps:
        if st["op"] == "crash":
            out.append(("crash",))
        elif st["op"] == "recover":
            out.append(("recover",))
        else:
            out.append((st["op"], st.get("i", 0), st.get("t", 0), st.get("c", 0), json.dumps(st.get("ents") or []), bool(st.get("sync")), bool(st.get("cut"))))
    return tuple(out)


def _sibling_explains(scen_path, f):
    """Is the recovered triple the model's expectation in a behaviour that differs from this one only in how many unsynced
    records survived the crashes (the `kept` of its crash steps)?"""
    if scen_path not in _sib_index:
        idx = {}
        for line in open(scen_path):
            sc = json.loads(line)
            steps = sc["steps"]
            for k, st in enumerate(steps):
                if st["op"] == "recover":
                    idx.setdefault(_norm_steps(steps[:k + 1]), []).append(st["expect"])
        _sib_index[scen_path] = idx
    steps = f["steps"]
    nrec = 0
    for k, st in enumerate(steps):
        if st["op"] == "recover":
            nrec += 1
            if nrec == f["epoch"]:
                got = f["got"]
                for e in _sib_index[scen_path].get(_norm_steps(steps[:k + 1]), []):
                    if e["snap"] == got["snap"] and e["hs"] == got["hs"] and e["ents"] == got["ents"] and not got.get("restart"):
                        return True
                return False
    return False


def _clauses(f):
    """Which clauses of the property the recovered triple violates (the model's expectation satisfies all of them)."""
    exp, got = f["expected"], f["got"]
    why = []
    gl = got["ents"][-1]["i"] if got["ents"] else got["snap"]["i"]
    if got["snap"]["i"] > got["hs"]["c"]:
        why.append("the snapshot (index %d) is ahead of the recovered commit index %d" % (got["snap"]["i"], got["hs"]["c"]))
    if got["hs"]["c"] > gl:
        why.append("the recovered commit index %d is beyond the last recovered index %d" % (got["hs"]["c"], gl))
    if any(e["i"] != got["snap"]["i"] + k + 1 for k, e in enumerate(got["ents"])):
        why.append("the recovered entries are not contiguous from the snapshot")
    if got.get("restart"):
        why.append("raft refuses to restart from it (%s)" % got["restart"][:120])
    if got["hs"] != exp["hs"]:
        why.append("the hard state of the last completed save is %s, recovered %s" % (json.dumps(exp["hs"]), json.dumps(got["hs"])))
    for e in exp["ents"]:
        if e["i"] > got["snap"]["i"] and e not in got["ents"]:
            why.append("entry %d (term %d) of a completed save is missing" % (e["i"], e["t"]))
            break
    written = {(0, 0)}
    files, wsn = set(), set()
    for st in f["steps"]:
        if st["op"] == "snapfile":
            files.add((st["i"], st["t"]))
        elif st["op"] == "walsnap":
            wsn.add((st["i"], st["t"]))
    written |= files & wsn
    if (got["snap"]["i"], got["snap"]["t"]) not in written:
        why.append("the snapshot (%d,%d) was never recorded in the WAL" % (got["snap"]["i"], got["snap"]["t"]))
    for e in got["ents"]:
        if e not in exp["ents"] and e["i"] > exp["snap"]["i"]:
            why.append("entry %d (term %d) was never saved or had been superseded" % (e["i"], e["t"]))
            break
    return why


def _show(s):
    if s["op"] == "save":
        return "Save(term %d commit %d, %d entries%s)" % (s["t"], s["c"], len(s.get("ents") or []), ("" if s.get("sync") else ", no sync") + (", ends with a segment cut" if s.get("cut") else ""))
    if s["op"] in ("snapfile", "walsnap"):
        return "%s(%d,%d)" % (s["op"], s["i"], s["t"])
    if s["op"] == "damage":
        return "snapshot file (%d,%d) found damaged" % (s["i"], s["t"])
    if s["op"] == "crash":
        return "CRASH"
    if s["op"] == "recover":
        return "recover"
    return s["op"]
