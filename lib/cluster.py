"""Real multi-process RedisGO clusters for C07 / C08 / C14: one directory per node (WAL and snapshot paths are
cwd-relative), free ports, start / kill -9 / restart, crash gates (verif hooks), event traces."""
import json, os, signal, socket, subprocess, time
import common, server


class Node:
    def __init__(self, cl, nid):
        self.cl = cl
        self.id = nid
        self.dir = os.path.join(cl.dir, "node%d" % nid)
        os.makedirs(self.dir, exist_ok=True)
        self.kv_port = server.free_port()
        self.raft_port = server.free_port()
        self.p = None
        self.starts = 0

    def alive(self):
        return self.p is not None and self.p.poll() is None

    def client(self, timeout=5.0):
        return server.Client(self.kv_port, timeout=timeout)


class Cluster:
    def __init__(self, n, snapcount=None, catchup=None, wal_segment=4 * 1024 * 1024, trace=True, join_later=0, extra_conf=None):
        self.bin = server.build_server("verif")
        self.dir = common.scratch("cluster-")
        self.nodes = [Node(self, i + 1) for i in range(n + join_later)]
        self.n0 = n
        self.snapcount = snapcount
        self.catchup = catchup
        self.wal_segment = wal_segment
        self.trace = trace
        self.extra_conf = extra_conf or {}

    def peers(self, upto=None):
        return ",".join("http://127.0.0.1:%d" % nd.raft_port for nd in self.nodes[:upto or self.n0])

    def start_node(self, nd, crash_at=None, join=False, peers=None, crash_delay_ms=0, crash_arm=None):
        conf = {"IsCluster": True, "PeerAddrs": peers or self.peers(), "RaftAddr": "", "PeerIDs": ",".join(str(i + 1) for i in range(self.n0)),
                "NodeID": nd.id, "KVPort": nd.kv_port, "JoinCluster": join}
        conf.update(self.extra_conf)
        json.dump(conf, open(os.path.join(nd.dir, "cluster.json"), "w"))
        open(os.path.join(nd.dir, "redis.conf"), "w").write(
            "host 127.0.0.1\nport %d\nlogdir %s\nloglevel panic\nshardnum 16\ndatabases 1\n" % (nd.kv_port, nd.dir))
        env = {"VERIF_NODE": str(nd.id), "VERIF_WAL_SEGMENT": str(self.wal_segment)}
        if self.snapcount:
            env["VERIF_SNAPCOUNT"] = str(self.snapcount)
            env["VERIF_SNAP_CATCHUP"] = str(self.catchup if self.catchup is not None else self.snapcount)
        if self.trace:
            env["VERIF_TRACE"] = os.path.join(nd.dir, "events.ndjson")
        if crash_at:
            env["VERIF_CRASH_AT"] = crash_at
            if crash_delay_ms:
                env["VERIF_CRASH_DELAY_MS"] = str(crash_delay_ms)
            if crash_arm:
                env["VERIF_CRASH_ARM"] = crash_arm
        nd.starts += 1
        log = open(os.path.join(nd.dir, "stdout-%d.log" % nd.starts), "wb")
        nd.p = subprocess.Popen([self.bin, "--config", "redis.conf", "--IsCluster", "--ClusterConfigPath", "cluster.json"], cwd=nd.dir,
                                stdout=log, stderr=subprocess.STDOUT, env=common.env(env))
        return nd

    def start_all(self):
        for nd in self.nodes[:self.n0]:
            self.start_node(nd)
        return self

    def kill(self, nd):
        if nd.alive():
            nd.p.send_signal(signal.SIGKILL)
            nd.p.wait()

    def stop_cont(self, nd, stop=True):
        if nd.alive():
            nd.p.send_signal(signal.SIGSTOP if stop else signal.SIGCONT)

    def wait_serving(self, nodes=None, timeout=40):
        """Wait until every listed node answers a command (every command goes through Raft, so an answer means a leader
        exists and this node applies). Returns seconds waited."""
        t0 = time.time()
        for nd in (nodes or [n for n in self.nodes if n.alive()]):
            while True:
                if time.time() - t0 > timeout:
                    return None
                if not nd.alive():
                    return None
                try:
                    c = nd.client(timeout=3.0)
                    r = c.cmd("PING")
                    c.close()
                    if r[0] in ("+", "$"):
                        break
                except Exception:
                    time.sleep(0.2)
        return time.time() - t0

    def tail(self, nd, n=2000):
        try:
            return open(os.path.join(nd.dir, "stdout-%d.log" % nd.starts), errors="replace").read()[-n:]
        except Exception:
            return ""

    def events(self, nd):
        p = os.path.join(nd.dir, "events.ndjson")
        out = []
        if os.path.exists(p):
            for l in open(p, errors="replace"):
                try:
                    out.append(json.loads(l))
                except Exception:
                    pass
        return out

    def shutdown(self):
        for nd in self.nodes:
            self.kill(nd)
