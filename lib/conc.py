"""Shared driver for the concurrency properties (C05, C13): runs harness/cmd/conc in child processes (a Go
'fatal error: concurrent map writes' kills the whole process, so each chunk of histories is a child with a progress
file) and validates the recorded histories with TraceLin.tla."""
import concurrent.futures, json, os, struct, subprocess
import common, ks


def parse_nonlin(out):
    res = []
    for line in out.splitlines():
        if line.startswith('"'):
            try:
                s = json.loads(line)
            except Exception:
                continue
            if s.startswith("NONLIN "):
                res.append(json.loads(s[7:]))
    return res


def validate_hist(path, timeout=1500):
    res = common.run_tlc("TraceLin", workers=1, heap="4g", extra_env={"TRACE": path}, timeout=timeout)
    if res.timed_out or res.rc != 0 or "Model checking completed. No error" not in res.out:
        common.die_infra("TraceLin failed on %s (rc=%s):\n%s" % (path, res.rc, res.out[-3000:]))
    return parse_nonlin(res.out), res.distinct


def history_of(path, h):
    out = []
    for l in open(path):
        e = json.loads(l)
        if e.get("h") == h and e["ev"] != "reset":
            if e["ev"] in ("inv", "setup"):
                out.append("%s op%d %s" % (e["ev"], e["id"], ks.show_argv(e["argv"])))
            else:
                out.append("res op%d -> %s" % (e["id"], ks.show_reply(e["reply"])))
    return out


def run_conc(mode, histories, clients, ops, seed, nproc=8, race=False):
    """Returns dict(anomalies=[...], hist_files=[...], histories=n, operations=n, deaths=[...])."""
    tool = ks.build_tool("conc")
    d = common.scratch("conc-")
    per = max(1, histories // nproc)
    out = {"anomalies": [], "hist_files": [], "histories": 0, "operations": 0, "deaths": []}

    def one(i):
        path = os.path.join(d, "%s-%d.ndjson" % (mode, i))
        prog = os.path.join(d, "progress-%s-%d" % (mode, i))
        open(prog, "wb").write(struct.pack("<Q", 0))
        cmd = [tool, "-mode", mode, "-seed", str(seed * 1000 + i), "-hist", str(per), "-clients", str(clients), "-ops", str(ops),
               "-out", path, "-progress", prog, "-hbase", str(i * per)]
        p = subprocess.run(cmd, stdout=subprocess.PIPE, stderr=subprocess.PIPE, timeout=1500)
        return i, path, prog, p

    with concurrent.futures.ThreadPoolExecutor(max_workers=nproc) as ex:
        for i, path, prog, p in ex.map(one, range(nproc)):
            txt = p.stdout.decode("utf-8", "replace")
            summ = None
            for line in txt.splitlines():
                if line.startswith("SUMMARY "):
                    summ = json.loads(line[8:])
                elif line.startswith("{"):
                    out["anomalies"].append(json.loads(line))
            if p.returncode != 0 or summ is None:
                h = struct.unpack("<Q", open(prog, "rb").read(8))[0]
                err = p.stderr.decode("utf-8", "replace")
                first = [l for l in err.splitlines() if l.strip()][:1]
                site = "unknown"
                for l in err.splitlines():
                    if common.REPO + "/" in l:
                        site = l.strip().split(" +0x")[0].replace(common.REPO + "/", "")
                        break
                out["deaths"].append({"history": h, "first_line": first[0] if first else "rc=%s" % p.returncode, "site": site, "stderr_tail": err[-1500:]})
                out["histories"] += max(0, h - i * per)
            else:
                out["histories"] += summ["histories"]
                out["operations"] += summ["operations"]
                if os.path.exists(path) and os.path.getsize(path) > 0:
                    out["hist_files"].append(path)
    return out
