"""Shared driver for the concurrency properties (C05, C13): runs harness/cmd/conc in child processes (a Go
'fatal error: concurrent map writes' kills the whole process, so each chunk of histories is a child with a progress
file) and validates the recorded histories with TraceLin.tla."""
import concurrent.futures, json, os, struct, subprocess
import common, ks


def parse_nonlin(out):
    res = []
    for line in out.splitlines():
        if line.startswith('"'):
            try:
                s = json.loads(line)
            except Exception:
                continue
            if s.startswith("NONLIN "):
                res.append(json.loads(s[7:]))
    return res


def validate_hist(path, timeout=1500):
    res = common.run_tlc("TraceLin", workers=1, heap="4g", extra_env={"TRACE": path}, timeout=timeout)
    if res.timed_out or res.rc != 0 or "Model checking completed. No error" not in res.out:
        common.die_infra("TraceLin failed on %s (rc=%s):\n%s" % (path, res.rc, res.out[-3000:]))
    return parse_nonlin(res.out), res.distinct


def history_of(path, h):
    out = []
    for l in open(path):
        e = json.loads(l)
        if e.get("h") == h and e["ev"] != "reset":
            if e["ev"] in ("inv", "setup"):
                out.append("%s op%d %s" % (e["ev"], e["id"], ks.show_argv(e["argv"])))
            else:
                out.append("res op%d -> %s" % (e["id"], ks.show_reply(e["reply"])))
    return out


def run_conc(mode, histories, clients, ops, seed, nproc=8, race=False, profiles=None):
    """Returns dict(anomalies=[...], hist_files=[...], histories=n, operations=n, deaths=[...])."""
    tool = ks.build_tool("conc", race=race)
    d = common.scratch("conc-")
    per = max(1, histories // nproc)
    out = {"anomalies": [], "hist_files": [], "histories": 0, "operations": 0, "deaths": [], "races": []}

    def one(i):
        path = os.path.join(d, "%s-%d.ndjson" % (mode, i))
        prog = os.path.join(d, "progress-%s-%d" % (mode, i))
        open(prog, "wb").write(struct.pack("<Q", 0))
        cmd = [tool, "-mode", mode, "-seed", str(seed * 1000 + i), "-hist", str(per), "-clients", str(clients), "-ops", str(ops),
               "-out", path, "-progress", prog, "-hbase", str(i * per), "-pshard", str(i), "-pn", str(nproc)] + (["-profile", profiles] if profiles else [])
        e = None
        if race:    # Go's race detector: every pair of accesses to one memory location that no synchronisation orders
            e = dict(common.env(), GORACE="halt_on_error=0 log_path=%s" % os.path.join(d, "racelog-%s-%d" % (mode, i)))
        p = subprocess.run(cmd, stdout=subprocess.PIPE, stderr=subprocess.PIPE, timeout=1500, env=e)
        return i, path, prog, p

    with concurrent.futures.ThreadPoolExecutor(max_workers=nproc) as ex:
        for i, path, prog, p in ex.map(one, range(nproc)):
            txt = p.stdout.decode("utf-8", "replace")
            summ = None
            for line in txt.splitlines():
                if line.startswith("SUMMARY "):
                    summ = json.loads(line[8:])
                elif line.startswith("{"):
                    out["anomalies"].append(json.loads(line))
            if (p.returncode != 0 and not (race and p.returncode == 66 and summ is not None)) or summ is None:   # 66: the race detector's exit code
                h = struct.unpack("<Q", open(prog, "rb").read(8))[0]
                err = p.stderr.decode("utf-8", "replace")
                first = [l for l in err.splitlines() if l.strip()][:1]
                site = "unknown"
                for l in err.splitlines():
                    if common.REPO + "/" in l:
                        site = l.strip().split(" +0x")[0].replace(common.REPO + "/", "")
                        break
                out["deaths"].append({"history": h, "first_line": first[0] if first else "rc=%s" % p.returncode, "site": site, "stderr_tail": err[-1500:]})
                out["histories"] += max(0, h - i * per)
            else:
                out["histories"] += summ["histories"]
                out["operations"] += summ["operations"]
                if os.path.exists(path) and os.path.getsize(path) > 0:
                    out["hist_files"].append(path)
    if race:
        out["races"] = parse_race_logs(d)
    return out


def parse_race_logs(d):
    """DATA RACE reports of the race-detector build (GORACE log_path files in d): one record per distinct pair of code sites
    inside the code under test: {sites: [f1, f2], count, report}."""
    import glob, re
    seen = {}
    for fn in sorted(glob.glob(os.path.join(d, "racelog-*"))):
        txt = open(fn, errors="replace").read()
        for blk in txt.split("==================")[1:]:
            if "WARNING: DATA RACE" not in blk:
                continue
            sites = []
            for part in re.split(r"\n(?=(?:Previous )?(?:[Rr]ead|[Ww]rite|Atomic \w+) (?:at|by) )", "\n" + blk):
                if not re.match(r"(?:Previous )?(?:[Rr]ead|[Ww]rite|Atomic)", part.strip()):
                    continue
                kind = part.strip().split(" at ")[0].replace("Previous ", "").lower()
                fr = None
                lines = part.splitlines()
                for k, l in enumerate(lines):
                    if "RedisGO/" in l and not l.startswith(" " * 6):
                        fr = re.sub(r"\(\)$", "", l.strip().split("RedisGO/")[-1])
                        break
                if fr:
                    sites.append(kind.split()[0] + " in " + fr)
            if len(sites) < 2:
                continue
            key = " || ".join(sorted(sites[:2]))
            if key in seen:
                seen[key]["count"] += 1
            else:
                seen[key] = {"sites": sites[:2], "count": 1, "report": blk.strip()[:4000], "log": os.path.basename(fn)}
    return list(seen.values())


# ---- locality: linearizability is compositional per object (Herlihy & Wing), so a history of single-key commands is
# linearizable iff each per-key sub-history is. Splitting keeps TraceLin's set of candidate configurations small: with
# write-only bursts on 16 keys the unsplit set is the PRODUCT of the per-key ambiguities.
_SINGLE_KEY = {"SET", "GET", "INCR", "DECR", "INCRBY", "DECRBY", "APPEND", "SETNX", "STRLEN", "GETRANGE", "SETRANGE", "RPUSH", "LPUSH", "LPOP", "RPOP",
               "LLEN", "LRANGE", "LINDEX", "SADD", "SREM", "SCARD", "SMEMBERS", "SISMEMBER", "HINCRBY", "HGET", "HSET", "HDEL", "HLEN", "HGETALL",
               "ZADD", "ZREM", "ZRANGE", "ZRANK", "XADD", "XRANGE", "TTL", "TYPE", "EXPIRE", "PERSIST",
               "HKEYS", "HVALS", "HEXISTS", "HMGET", "HSTRLEN", "HSETNX", "HINCRBYFLOAT", "HRANDFIELD", "LPOS", "LSET", "LTRIM", "LPUSHX", "RPUSHX", "LREM",
               "SRANDMEMBER", "SPOP", "INCRBYFLOAT"}


def _key_of(argv):
    name = bytes(argv[0]).decode("latin1").upper()
    if name in _SINGLE_KEY and len(argv) >= 2:
        return bytes(argv[1])
    if name in ("DEL", "EXISTS", "MGET", "SUNION", "SINTER", "SDIFF") and len(argv) == 2:
        return bytes(argv[1])
    return None


def split_by_key(path, out_path):
    """Rewrite the histories of `path` as per-key sub-histories when every command of a history is a single-key command.
    Returns {new h: (old h, key)}; histories that contain anything else are copied unchanged (new h = old h * 1000)."""
    groups, order = {}, []
    for line in open(path):
        e = json.loads(line)
        if e["h"] not in groups:
            groups[e["h"]] = []
            order.append(e["h"])
        groups[e["h"]].append(e)
    mapping = {}
    with open(out_path, "w") as f:
        for h in order:
            evs = [e for e in groups[h] if e["ev"] != "reset"]
            keyof, ok = {}, True
            for e in evs:
                if e["ev"] in ("inv", "setup"):
                    k = _key_of(e["argv"])
                    if k is None:
                        ok = False
                        break
                    keyof[e["id"]] = k
            if not ok:
                nh = h * 1000
                mapping[nh] = (h, None)
                f.write(json.dumps({"ev": "reset", "h": nh, "id": 0, "now": 0, "argv": [], "answered": False}) + "\n")
                for e in evs:
                    f.write(json.dumps(dict(e, h=nh)) + "\n")
                continue
            keys = []
            for e in evs:
                k = keyof.get(e["id"])
                if k is not None and k not in keys:
                    keys.append(k)
            for i, k in enumerate(keys):
                nh = h * 1000 + i + 1
                mapping[nh] = (h, k.decode("latin1"))
                f.write(json.dumps({"ev": "reset", "h": nh, "id": 0, "now": 0, "argv": [], "answered": False}) + "\n")
                for e in evs:
                    if keyof.get(e["id"]) == k:
                        f.write(json.dumps(dict(e, h=nh)) + "\n")
    return mapping


def validate_hist_split(path, timeout=1500):
    """validate_hist on the per-key split of `path`; NONLIN records carry the original history number in 'h' and the
    sub-history file to print from in 'path'."""
    sp = path + ".bykey.ndjson"
    mapping = split_by_key(path, sp)
    nonlin, states = validate_hist(sp, timeout=timeout)
    for n in nonlin:
        n["sub_h"] = n["h"]
        n["h"], n["key"] = mapping.get(n["h"], (n["h"], None))
        n["path"] = sp
    return nonlin, states
