#!/usr/bin/env python3
"""C13 multi-key commands: deadlock freedom and atomicity.
B2a (atomicity): concurrent histories mixing MSET / RENAME / LMOVE / SMOVE with single-key commands on keys that
collide (or not) on lock stripes are checked for linearizability by TLC (spec/TraceLin.tla) with those four commands
as single atomic operations; conservation (nothing lost or duplicated) follows from the sequential read-back.
B2b (deadlock freedom): histories that additionally contain the non-atomic multi-key commands (S*STORE, SUNION, multi-key
DEL/EXISTS/MGET, KEYS) run under a 5 s watchdog with seeded yields at every lock request; a history whose clients do not
finish is a real deadlock (stuck commands and held stripes are reported).
B3 (lock-order witness construction, spec/Locks.tla) is run by lib/locks.py when present."""
import concurrent.futures, json, os
import common, ks, conc, sched

tier = common.tier_arg()
v = common.Verdict("C13")
seed = common.seed()
lin = conc.run_conc("lin", 300 if tier == "quick" else 8000, clients=5, ops=5, seed=seed + 100)
dl = conc.run_conc("deadlock", 400 if tier == "quick" else 10000, clients=6, ops=6, seed=seed + 200)
cov = {"states": 0, "transitions": 0, "traces_validated_against_impl": lin["histories"], "samples": [],
       "atomicity_histories": lin["histories"], "deadlock_histories": dl["histories"], "deadlock_operations": dl["operations"]}
for src in (lin, dl):
    for a in src["anomalies"]:
        v.report({"branch": "conc." + a["profile"], "kind": a["kind"], "detail": ""}, a,
                 what="history %d (%s): %s %s" % (a["h"], a["profile"], a["detail"][:500], a.get("stuck") or ""))
    for dth in src["deaths"]:
        v.report({"branch": "conc.process", "kind": "process-death", "detail": dth["first_line"][:80]}, dth,
                 what="the process died during history %d: %s" % (dth["history"], dth["first_line"]))
MULTI = ("mset", "rename", "lmove", "smove")
with concurrent.futures.ThreadPoolExecutor(max_workers=8) as ex:
    for path, (nonlin, states) in zip(lin["hist_files"], ex.map(conc.validate_hist, lin["hist_files"])):
        cov["states"] += states
        cov["transitions"] += states
        for n in nonlin:
            hist = conc.history_of(path, n["h"])
            # only histories that involve an atomic multi-key command are C13's; the others are C05's
            if not any(any(w in h.lower().split() for w in MULTI) for h in hist):
                continue
            v.report({"branch": "atomic", "kind": "non-linearizable", "detail": ""}, {"history": hist, "failing_response": n},
                     what="history %d with atomic multi-key commands is not linearizable (reply %s of %s)\n  %s" % (
                         n["h"], ks.show_reply(n["got"]), ks.show_argv(n["argv"]), "\n  ".join(hist[:40])))
        if not cov["samples"]:
            first = json.loads(open(path).readline())
            cov["samples"].append({"kind": "concurrent history", "events": conc.history_of(path, first["h"])[:24]})
# B1 for schedules (spec/Sched.tla): every preemption-bounded interleaving of pairs / triples holding a multi-key command,
# on two stripes and on one stripe; cases whose commands are all required to be atomic are decided by TraceLin, the others
# (STORE forms, SUNION/SINTER/SDIFF, multi-key DEL/EXISTS/MGET) must complete (no deadlock, no leaked stripe)
sr = sched.run("multi", tier, seed, maxpre=2, maxpre3=1 if tier == "quick" else 2)
sched.decide(sr, v, "C13", cov)
# sequential all-or-nothing of the multi-key commands (a command that fails - wrong-typed, missing or expired operand - changes
# nothing; one that succeeds changes every key it names): the branch labels of the multi-key commands in the bounded models of
# C01 / C09 / C11, each label replayed from several model states on the real code with comparison of the stored state
MULTI_LABELS = ("mset", "rename", "lmove", "smove", "sunionstore", "sinterstore", "sdiffstore", "del", "exists", "mget")


def seq_tables(job):
    module, cfg = job
    return job, ks.run_b1(module, cfg, workers=4, tour_args=["-sample", "12" if tier == "quick" else "200"])


cov["sequential_all_or_nothing"] = {}
with concurrent.futures.ThreadPoolExecutor(max_workers=3) as ex:
    for (module, cfg), r in ex.map(seq_tables, [("MC_String", "MC_String.cfg"), ("MC_List", "MC_List.cfg"), ("MC_Set", "MC_Set.cfg")]):
        mine = [f for f in r["failures"] if f["branch"].split(".")[0] in MULTI_LABELS]
        cov["sequential_all_or_nothing"][cfg] = {"edges_tested": r["summary"]["edges_tested"], "multi_key_failures": len(mine)}
        cov["states"] += r["tlc"]["distinct"]
        cov["transitions"] += r["tlc"]["generated"]
        for f in mine:
            v.report(ks.b1_signature(f), {"instance": cfg, "path": f.get("path"), "cmd": f["cmd"], "got": f["got"], "expected": f["expected"], "state_diff": f.get("state_diff")},
                     what="%s: after %s, %s -> %s %s" % (cfg, f.get("path"), f["cmd"], ks.show_reply(f["got"]), f.get("state_diff") or ""))
# blocking pops over several keys (the multi-key command that waits): they answer and leave every named key usable
import expwin
bp_probs, bp_stats = expwin.blocking_pop_hygiene()
cov["blocking_pop_hygiene"] = bp_stats
for pr in bp_probs:
    v.report({"branch": "blockingpop", "kind": pr["kind"], "detail": (pr["argv"] or ["-"])[0].lower()}, pr, what=pr["detail"])
try:
    import locks
    locks.run(v, cov, tier, seed)
except ImportError:
    cov["b3_lock_order"] = "not built"
v.finish(tier, "model_checking", cov, ["atomic commands: MSET, RENAME, LMOVE, SMOVE (the property's list); the STORE forms and multi-key DEL/EXISTS/MGET are sequences of single-key steps and only required not to deadlock",
                                       "deadlock = clients of a history not finished after 65 s with every command non-blocking (a history that finishes between 5 s and 65 s is counted as slow, not as a deadlock)",
                                       "schedules come from the Go scheduler under seeded yields at lock requests and map accesses"])
