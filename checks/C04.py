#!/usr/bin/env python3
"""C04 robustness: the input space is defined by spec/Robust.tla (token alphabet, mutation operators; TLC prints
them) and by the Cmds sets of every MC_* instance (TLC prints them); harness/cmd/robust executes every input on the
real code under the server-life monitor; every distinct anomaly is then reproduced on the real server binary over
TCP (process exit / unresponsive second connection) and only that reproduction is a violation."""
import concurrent.futures, json, os, resource, struct, subprocess, sys, time
import common, ks, server

tier = common.tier_arg()
v = common.Verdict("C04")
import robustlib
anomalies, summary, restarts, maxargs = robustlib.run(tier)

# ---- confirmation on the real binary over TCP: the verdict ----
SETUP = [["SET", "str", "sv"], ["RPUSH", "lst", "a", "b", "a"], ["HSET", "hsh", "f", "v", "n", "1"], ["SADD", "st", "a", "b"],
         ["ZADD", "zs", "1", "a", "2", "b", "2", "c"], ["XADD", "xs", "1-1", "f", "v"], ["XADD", "xs", "2-0", "f", "v"]]
confirmed = 0
by_sig = {}
for a in anomalies:
    by_sig.setdefault((a["kind"], a["site"]), a)
for (kind, site), a in sorted(by_sig.items()):
    if a["argv"] is None:
        # died without a known argv: re-run just that index to learn it is reproducible
        v.report({"branch": "process-death", "kind": kind, "detail": site}, a, what="driver process died at input #%d: %s" % (a["index"], a["detail"]))
        continue
    srv = server.Server()
    try:
        c1 = srv.client()
        for s in SETUP:
            c1.cmd(*s)
        other = srv.client()
        verdict = None
        if kind == "shared-object":
            # B3: the in-process run saw two keys holding one object after this input. The witness on the real binary: two
            # connections write to the two keys at the same time (different lock stripes, one Go map)
            import threading
            typ, ka, kb = a["detail"].split("|")
            c1.cmd(*[x.encode("latin1") for x in a["argv"]], timeout=20.0)
            wr = {"set": lambda k, i: ["SADD", k, "w%d" % i], "hash": lambda k, i: ["HSET", k, "f%d" % i, "v"], "list": lambda k, i: ["RPUSH", k, "e%d" % i],
                  "zset": lambda k, i: ["ZADD", k, str(i), "m%d" % i], "stream": lambda k, i: ["XADD", k, "%d-1" % (i + 10), "f", "v"]}.get(typ)
            stop = [False]

            def hammer(k):
                try:
                    cc = srv.client(timeout=5.0)
                    i = 0
                    while not stop[0]:
                        cc.cmd(*wr(k.encode("latin1"), i), timeout=5.0)
                        i += 1
                except Exception:
                    pass
            ths = [threading.Thread(target=hammer, args=(k,)) for k in (ka, kb, ka, kb)] if wr else []
            for t in ths:
                t.start()
            t_end = time.time() + 4.0
            while time.time() < t_end and srv.alive():
                time.sleep(0.05)
            stop[0] = True
            for t in ths:
                t.join(timeout=10)
            if not srv.alive():
                verdict = "after this command keys %r and %r hold ONE %s object; two connections writing to them killed the server process (rc=%s): %s" % (ka, kb, typ, srv.p.returncode, srv.tail(300))
            if verdict:
                confirmed += 1
                v.report({"branch": "input." + a["argv"][0].lower(), "kind": "shared-object-crash", "detail": typ},
                         {"setup": SETUP, "argv": a["argv"], "in_process": a, "tcp": verdict}, what="%s -> %s" % (" ".join(repr(x) for x in a["argv"]), verdict))
            else:
                print("NOTE: two keys share one object after %s, but concurrent writes did not kill the server within 4 s (not a C04 verdict)" % a["argv"])
            continue
        try:
            c1.send_raw(server.encode([x.encode("latin1") for x in a["argv"]]))
            try:
                c1.read_reply(timeout=20.0)
                answered = True
            except Exception:
                answered = False
            time.sleep(0.2)
            if not srv.alive():
                verdict = "server process exited (rc=%s): %s" % (srv.p.returncode, srv.tail(600))
            else:
                try:
                    r = other.cmd("PING", timeout=20.0)
                    ok_other = r[0] == "+"
                except Exception:
                    ok_other = False
                probe_ok = True
                try:
                    c3 = srv.client()
                    for k in ("str", "lst", "hsh", "st", "zs", "xs"):
                        c3.cmd("EXISTS", k, timeout=20.0)
                    # the same key as the offending command, on a fresh connection
                    if len(a["argv"]) > 1:
                        c3.cmd("EXISTS", a["argv"][1].encode("latin1"), timeout=20.0)
                    c3.close()
                except Exception as e:
                    probe_ok = False
                if not ok_other:
                    verdict = "another connection no longer answers PING"
                elif not probe_ok:
                    verdict = "later commands on the keys no longer complete (lock stripe wedged)"
                elif not answered and kind == "timeout":
                    verdict = "command never answered on the real server (no reply within 20 s)"
        except Exception as e:
            verdict = None
        if verdict:
            confirmed += 1
            v.report({"branch": "input." + a["argv"][0].lower() if a["argv"] else "input", "kind": kind, "detail": site},
                     {"setup": SETUP, "argv": a["argv"], "in_process": a, "tcp": verdict},
                     what="%s -> %s" % (" ".join(repr(x) for x in a["argv"]), verdict))
        elif kind in ("malformed-reply",):
            # reply framing is C03's business (checks/C03.py runs the same inputs and reports it); the server survived
            print("NOTE: malformed reply (reported by C03, not a C04 verdict): %s" % a["argv"])
        else:
            print("NOTE: in-process anomaly not reproduced over TCP (not a verdict): %s %s %s" % (kind, site, a["argv"]))
    finally:
        srv.stop()

# ---- expiry-window phase (lib/expwin.py): every command against keys that are "expired but present" and against keys whose
# purge timer is firing; real binary over TCP, so every anomaly is a verdict by itself
import expwin
expstats = []
for variant in ("window", "timer") * (1 if tier == "quick" else 4):
    for attempt in range(3):
        an, st = expwin.run_variant(variant)
        if an is not None:
            break
    expstats.append(st)
    for a in an or []:
        confirmed += 1
        name = (a["argv"][0].lower() if a.get("argv") else "server")
        v.report({"branch": "expiry-window." + name, "kind": a["kind"], "detail": a.get("type", "")}, a,
                 what="%s on a key whose deadline second has passed while its purge timer %s: %s" % (
                     " ".join(a["argv"]) if a.get("argv") else "server", "has not fired yet" if a["variant"] == "window" else "is firing", a["detail"][:300]))

# ---- lock programmes (lib/locks.py, Locks.tla; shared with C13): the lock acquisitions every multi-key command performs are
# observed on the real code, TLC composes them under the RWMutex rules, and every composition it finds deadlocked is replayed
# on the real code - a command that can wedge a lock stripe against a concurrent writer hangs the server for every client
import locks
locks.PROP = "C04"
lcov = {}
locks.run(v, lcov, tier, common.seed())
# ---- mixed load on the real binary: connections of every command family on a handful of shared keys; nothing may stay
# unanswered (a command that wedges a lock stripe only under concurrency)
import wireconc
mlstats = []
for k in range(2 if tier == "quick" else 10):
    mp, ms = wireconc.mixed_load(seed=common.seed() * 10 + k, seconds=4.0 if tier == "quick" else 8.0)
    mlstats.append(ms)
    for pr in mp:
        confirmed += 1
        v.report({"branch": "mixed-load", "kind": pr["kind"], "detail": ""}, pr, what="concurrent connections, every command family, shared keys: %s" % pr["detail"][:500])

cov = {"evaluations": summary["executed"] + sum(s.get("commands", 0) for s in expstats) + sum(s.get("commands", 0) for s in mlstats), "mixed_load": mlstats, "lock_programmes": lcov.get("b3_lock_order"), "expiry_window_phase": expstats, "distinct_nontrivial": summary["distinct_outcome_classes"],
       "rule": "every registered command name (from the real CmdTable, %d names incl. select and an unknown name) x 3 letter cases (<=1 arg) x every "
               "argument vector of length 0..%d over the %d-token adversarial alphabet of spec/Robust.tla, plus every single-point mutation "
               "(truncate/delete/duplicate/swap/replace-by-token, Robust.tla Mutations) of the %d valid commands of the MC_* instances; "
               "distinct_nontrivial counts distinct (command, arity, reply kind) outcome classes observed" % (summary["names"], maxargs, summary["tokens"], summary["valid_commands"]),
       "samples": [{"argv": ["SET", "k", "v", "PX"], "source": "mutation (truncate)"}, {"argv": ["zadd", "zs", "ch", "9223372036854775808", ""], "source": "enumeration"},
                   {"argv": ["GETRANGE", "str", "0", "9223372036854775807"], "source": "mutation (replace by token)"}],
       "inputs": summary["inputs"], "enum_inputs": summary["enum_inputs"], "mutation_inputs": summary["mutation_inputs"],
       "skipped_legitimately_blocking": summary["skipped_blocking"], "in_process_anomalies": summary["anomalies"] + restarts,
       "anomaly_signatures": sorted("%s|%s" % k for k in by_sig), "confirmed_over_tcp": confirmed, "driver_restarts": restarts,
       "exhaustive": True}
v.finish(tier, "fault_enumeration", cov, ["input space = spec/Robust.tla (TLC prints tokens and mutation samples; the Go mutation operator is cross-checked against TLC's evaluation on every run)",
                                          "monitor evaluated in Go after every input: no panic, reply within 2 s (3 s for 1-second blocking pops), every lock stripe free, probes answer",
                                          "verdicts only from reproduction on the real server binary over TCP",
                                          "expiry-window phase: deadlines are set at S+0.62..0.70 with a TTL of 1 s, commands fired at S+1.06 (window) or 4 ms before the first timer (timer); a run whose EXPIREs straddle a second boundary is repeated",
                                          "legitimately blocking inputs (BLPOP/BRPOP with timeout 0 or >= 2) are skipped and counted; tokens demanding >= 10^7 units of legitimate work are not in the alphabet"])
