#!/usr/bin/env python3
"""C02 RESP request decoding is exact, binary-safe and fragmentation-independent.

Specification: spec/RespParser.tla (Enc, the reference decoder DecodeAll, the chunked parser state machine).
 1. TLC model checks (a failure here is a machinery bug = exit 2):
      MC_Resp.cfg / MC_RespDeep.cfg (quick / thorough)
                        the state machine under EVERY Read schedule agrees with DecodeAll on every stream of the
                        instance (ChunkingIndependence, OutIsPrefix, NothingAfterStop)
      MC_RespExact.cfg  DecodeAll(Enc(a1)..Enc(ak)) = <<a1..ak>> over an alphabet with CR LF NUL $ * and ""
 2. B1 (spec -> implementation): TLC prints test vectors [stream, DecodeAll(stream)] (MC_Resp.tla modes wf / all /
    mut / len, sliced over parallel TLC runs); harness/cmd/respcheck feeds every stream to the real resp.ParseStream
    under every split (<= 10 bytes) or adversarial + seeded splits and compares the commands delivered on the channel.
    The tool runs as a child under an address-space limit with a progress file: a vector that kills the process
    (the parser goroutine panics outside any recover) is attributed and the run resumes behind it.
 3. TCP phase on the real server binary (the verdict for crashes): every distinct crasher signature, every declared-
    length vector and a seeded sample of all vectors are written with random write sizes; the process must stay
    alive, a second connection must keep answering PING, a well-formed pipeline gets exactly one reply per command
    (then PING -> PONG, then every argument echoed back byte-exact by PING <arg>), a malformed item gets an error
    reply or a close.
 4. B2: seeded random pipelines of 1-50 commands (PING <bytes> / SET / GET / STRLEN) with binary arguments of 0-64 KB
    (sizes around the 4096-byte read buffer boosted) and random TCP write sizes; replies matched one by one.
"""
import concurrent.futures, json, os, random, re, resource, shutil, socket, struct, subprocess, sys, threading, time
import common, ks, server

tier = common.tier_arg()
SEED = common.seed()
QUICK = tier == "quick"
v = common.Verdict("C02")
d = common.scratch("c02-")

ALL_MAXLEN = 5 if QUICK else 7
NS = {"all": 16, "wf": 4 if QUICK else 16, "mut": 2 if QUICK else 16, "len": 1}
DEEP = not QUICK
MC_CFG = "MC_Resp.cfg" if QUICK else "MC_RespDeep.cfg"      # state-machine instance: strings <= 4 / <= 5, 1 / 3 mutated bases
# read schedules: EVERY split for streams of at most ALLSPLITS bytes, otherwise one read / one byte / two bytes / cuts inside and
# after every CRLF + RANDSPLITS seeded splits. Thorough: the 2.1 million strings of length 7 get 17 schedules each instead of 64.
ALLSPLITS = {"all": 10 if QUICK else 6, "wf": 10, "mut": 10, "len": 10}
RANDSPLITS = {"all": 4 if QUICK else 12, "wf": 4, "mut": 4, "len": 4}
TCP_SAMPLE = {"all": 250, "wf": 150, "mut": 200} if QUICK else {"all": 2000, "wf": 1000, "mut": 1500}
B2_PIPELINES = 60 if QUICK else 2000
MAX_DEATHS_PER_SLICE = 10 if QUICK else 30
MAX_TCP_RESTARTS = 30
MAX_TCP_FAILS = 8            # a failing tree: stop the TCP sample / B2 phases early instead of waiting for hundreds of time-outs
MAX_B2_FAILS = 3
AS_LIMIT = 2 << 30           # address-space limit of the respcheck child (a declared bulk length of 2^31 cannot be allocated)

CHILD_ENV = dict(os.environ, GOMAXPROCS="1", GOGC="1000")     # one parser goroutine + one consumer per run: a single P avoids cross-thread wake-ups
tool = ks.build_tool("respcheck")
server.build_server()
t_build = time.time() - v.t0


# ------------------------------------------------------------------ 1. model checks (in the background)
def model_check(cfg, workers):
    res = common.run_tlc("MC_Resp", cfg=cfg, workers=workers, heap="3g", timeout=600)
    common.tlc_ok(res, cfg)
    if "No error has been found" not in res.out:
        common.die_infra("TLC did not complete on %s:\n%s" % (cfg, res.out[-2000:]))
    return res


# ------------------------------------------------------------------ 2. vectors + respcheck
def limit():
    resource.setrlimit(resource.RLIMIT_AS, (AS_LIMIT, AS_LIMIT))


def death_signature(stderr):
    """(detail, headline) of a Go process death: the first frame inside the repository + the normalised message."""
    lines = stderr.splitlines()
    head = ""
    for l in lines:
        if l.startswith("panic:") or l.startswith("fatal error:"):
            head = l.strip()
            break
    if not head and lines:
        head = lines[0].strip()
    msg = head
    if "out of memory" in stderr[:400]:
        msg = "fatal error: out of memory (address space limited to %d MB)" % (AS_LIMIT >> 20)
    if "makeslice" in msg or "out of range" in msg or "out of memory" in msg:
        pass
    msg = re.sub(r"0x[0-9a-f]+", "0x?", msg)
    site = "?"
    for l in lines:
        m = re.match(r"^github\.com/innovationb1ue/RedisGO/([\w/]+\.[\w.()*]+)\(", l)
        if m:
            site = m.group(1)
            break
    return "%s in %s" % (msg[:120], site), head


def run_slice(job):
    mode, sl = job
    wd = common.scratch("tlc-c02-")
    cfg = "vec_%s_%d.cfg" % (mode, sl)
    open(os.path.join(wd, cfg), "w").write(
        "SPECIFICATION VecSpec\nCONSTANTS\n  Mode = \"%s\"\n  MaxLen = %d\n  Slice = %d\n  NSlices = %d\n  Deep = %s\n"
        "  Streams <- NoStreams\nCHECK_DEADLOCK FALSE\n" % (mode, ALL_MAXLEN, sl, NS[mode], "TRUE" if DEEP else "FALSE"))
    vecfile = os.path.join(d, "vec-%s-%d.txt" % (mode, sl))
    t0 = time.time()
    res = common.run_tlc("MC_Resp", cfg=cfg, workdir=wd, workers=1, heap="2g", timeout=900, stdout_path=vecfile)
    common.tlc_ok(res, "MC_Resp vectors %s/%d" % (mode, sl))
    t_tlc = time.time() - t0
    shutil.rmtree(wd, ignore_errors=True)
    progress = os.path.join(d, "progress-%s-%d" % (mode, sl))
    out = {"mode": mode, "slice": sl, "file": vecfile, "fails": [], "deaths": [], "vectors": 0, "runs": 0, "exhaustive": 0, "hangs": 0,
           "by_term": {}, "by_why": {}, "fail_counts": {}, "truncated": False, "t_tlc": t_tlc, "stalls": 0}
    offset, index, no_progress = 0, 0, 0
    t0 = time.time()
    while True:
        open(progress, "wb").write(struct.pack("<4Q", index, offset, 0, 0))
        p = subprocess.run([tool, "-in", vecfile, "-offset", str(offset), "-index", str(index), "-progress", progress, "-seed", str(SEED),
                            "-allsplits", str(ALLSPLITS[mode]), "-randsplits", str(RANDSPLITS[mode])],
                           stdout=subprocess.PIPE, stderr=subprocess.PIPE, preexec_fn=limit, timeout=3000, env=CHILD_ENV)
        summ = None
        for line in p.stdout.decode("utf-8", "replace").splitlines():
            if line.startswith("FAIL "):
                out["fails"].append(json.loads(line[5:]))
            elif line.startswith("SUMMARY "):
                summ = json.loads(line[8:])
        if p.returncode == 0 and summ is not None:
            out["vectors"] += summ["vectors"]
            out["runs"] += summ["runs"]
            out["exhaustive"] += summ["exhaustive_split_vectors"]
            out["hangs"] += summ["hangs"]
            out["stalls"] += summ.get("watchdog_expiries_not_repeated", 0)
            for k in ("by_term", "by_why", "fail_counts"):
                for a, b in summ[k].items():
                    out[k][a] = out[k].get(a, 0) + b
            break
        err = p.stderr.decode("utf-8", "replace")
        if p.returncode == 4:
            common.die_infra("respcheck failed: " + err[-2000:])
        idx, off, ln, runs = struct.unpack("<4Q", open(progress, "rb").read(32))
        if idx == index or ln == 0:
            no_progress += 1
            if no_progress > 2:
                common.die_infra("respcheck died before its first vector (rc=%s): %s" % (p.returncode, err[-2000:]))
            continue
        with open(vecfile, "rb") as f:
            f.seek(off)
            raw = f.read(ln)
        vec = json.loads(json.loads(raw.decode())[4:])
        out["vectors"] += idx - index
        out["runs"] += runs
        if p.returncode != 3:      # 3 = too many hangs (already reported as FAIL lines)
            detail, head = death_signature(err)
            out["deaths"].append({"vec": vec, "detail": detail, "head": head, "rc": p.returncode, "stderr": err[:1500], "index": idx})
        index, offset = idx, off + ln
        if len(out["deaths"]) >= MAX_DEATHS_PER_SLICE and mode != "len":
            out["truncated"] = True      # the tree is failing already; do not spend the budget on thousands of restarts
            break
    out["t_check"] = time.time() - t0
    return out


jobs = [(m, s) for m in ("all", "wf", "mut", "len") for s in range(NS[m])]
with concurrent.futures.ThreadPoolExecutor(max_workers=16) as ex:
    f_mc = ex.submit(model_check, MC_CFG, 4)
    f_ex = ex.submit(model_check, "MC_RespExact.cfg", 1)
    slices = list(ex.map(run_slice, jobs))
    mc = f_mc.result()
    mcx = f_ex.result()
t_b1 = time.time() - v.t0 - t_build

tot = {"vectors": 0, "runs": 0, "exhaustive": 0, "hangs": 0, "deaths": 0, "stalls": 0}
by_term, by_why, by_class = {}, {}, {}
for s in slices:
    for k in ("vectors", "runs", "exhaustive", "hangs", "stalls"):
        tot[k] += s[k]
    tot["deaths"] += len(s["deaths"])
    by_class[s["mode"]] = by_class.get(s["mode"], 0) + s["vectors"]
    for a, b in s["by_term"].items():
        by_term[a] = by_term.get(a, 0) + b
    for a, b in s["by_why"].items():
        by_why[a] = by_why.get(a, 0) + b
truncated = [(s["mode"], s["slice"]) for s in slices if s["truncated"]]


# ---- vacuity guards (DESIGN 4): the comparator must reject corrupted vectors, and every branch label of the
# reference decoder must have been exercised
ALL_LABELS = {"eof.eof", "incomplete.line", "incomplete.elem_line", "incomplete.array_elems", "incomplete.array_huge_len",
              "incomplete.bulk_body", "incomplete.bulk_huge_len",
              "malformed.bare_lf", "malformed.bare_lf_in_array", "malformed.array_len_not_int", "malformed.array_len_negative",
              "malformed.nested_array_len", "malformed.bulk_len_not_int", "malformed.bulk_len_negative", "malformed.bulk_terminator",
              "unspec.len_spelling", "unspec.null_array", "unspec.empty_array", "unspec.nested_array", "unspec.nonbulk_in_array",
              "unspec.nil_in_array", "unspec.top_level_bulk", "unspec.top_level_nil", "unspec.empty_line", "unspec.simple_string",
              "unspec.error_value", "unspec.integer_value", "unspec.inline_text"}
failing_already = any(s["fails"] or s["deaths"] for s in slices)
if not truncated and not failing_already:
    missing = ALL_LABELS - set(by_why)
    if missing or set(by_why) - ALL_LABELS:
        common.die_infra("branch labels of RespParser.tla not covered by the vectors (or unknown): %s / %s" % (sorted(missing), sorted(set(by_why) - ALL_LABELS)))


def corrupted_vectors_rejected():
    ea = [42, 49, 13, 10, 36, 49, 13, 10, 97, 13, 10]      # *1 CRLF $1 CRLF a CRLF
    vecs = [{"k": "selfcheck", "s": ea, "c": [[[98]]], "t": "eof", "w": "eof"},            # expected argument altered
            {"k": "selfcheck", "s": ea + ea, "c": [[[97]]], "t": "eof", "w": "eof"},       # expected command deleted
            {"k": "selfcheck", "s": ea, "c": [[[97]]], "t": "malformed", "w": "eof"},      # expected outcome corrupted
            {"k": "selfcheck", "s": ea, "c": [[[97]]], "t": "eof", "w": "eof"}]            # control
    path = os.path.join(d, "corrupted.txt")
    with open(path, "w") as f:
        for x in vecs:
            f.write(json.dumps("VEC " + json.dumps(x)) + "\n")
    p = subprocess.run([tool, "-in", path, "-maxreport", "100"], stdout=subprocess.PIPE, stderr=subprocess.PIPE, preexec_fn=limit, timeout=120, env=CHILD_ENV)
    got = sorted((json.loads(l[5:])["index"], json.loads(l[5:])["kind"], json.loads(l[5:])["detail"].split(" ")[0])
                 for l in p.stdout.decode("utf-8", "replace").splitlines() if l.startswith("FAIL "))
    want = [(1, "wrong-delivery", "altered-command"), (2, "wrong-delivery", "extra-command"), (3, "no-error", "malformed")]
    return got == want, got


ok_guard, got_guard = corrupted_vectors_rejected()
if not ok_guard:
    if failing_already:
        print("NOTE: comparator self-check skipped (the tree under test already fails): %s" % (got_guard,), flush=True)
    else:
        common.die_infra("respcheck does not reject corrupted vectors as expected: %s" % (got_guard,))


def text(stream):
    return repr(bytes(stream))[1:]


def label(vec):
    return "resp.%s.%s" % (vec["t"], vec["w"])


# in-process verdicts: what the real resp.ParseStream delivered is the observable the property names
for s in slices:
    for f in s["fails"]:
        sig = {"branch": "resp.%s.%s" % (f["term"], f["why"]), "kind": f["kind"], "detail": f["detail"]}
        what = "stream %s read in chunks %s: reference decoder delivers %d command(s) then %s; resp.ParseStream delivered %s and ended with %s" % (
            f["text"], f["schedule"], len(f["want"]), f["term"], [[text(a) for a in c] for c in f["got"]], f["end"])
        if f["kind"] == "chunking-dependent":
            what += "; under chunks %s it delivered %s" % (f.get("other_schedule"), [[text(a) for a in c] for c in f.get("other_got") or []])
        v.report(sig, f, what=what)

# ------------------------------------------------------------------ 3. TCP phase on the real binary
rng = random.Random(SEED * 7919 + 17)


def send_chunked(sock, data, r):
    i = 0
    small = len(data) <= 4096
    while i < len(data):
        if small:
            n = r.choice((1, 1, 1, 2, 3, 5, 8, 13, 40, 4096))
        else:
            n = r.choice((1, 7, 100, 1000, 4095, 4096, 4097, 8192, 16384, 65536, 65536))
        sock.sendall(data[i:i + n])
        i += n
        if small and r.random() < 0.25:
            time.sleep(0.0002)


class Live:
    """The real server + the innocent connection that must keep answering."""

    def __init__(self):
        self.start()
        self.restarts = 0

    def start(self):
        last = None
        for attempt in range(4):     # other checks run servers on random ports of this machine at the same time
            try:
                self.srv = server.Server()
                self.other = self.srv.client(timeout=3.0)
                if self.other.cmd("PING") == ("+", b"PONG"):
                    return
                last = "unexpected reply to PING"
            except (OSError, ConnectionError) as e:
                last = repr(e)
            try:
                self.srv.stop()
            except Exception:
                pass
        common.die_infra("fresh server does not answer PING: %s" % last)

    def dead(self):
        detail, head = death_signature(self.srv.tail(6000))
        return ("panic", detail, "server process exited (rc=%s): %s" % (self.srv.p.returncode, head))

    def check(self):
        """None if everything is fine, otherwise (kind, detail, text) of what broke."""
        if not self.srv.alive():
            return self.dead()
        try:
            r = self.other.cmd("PING", timeout=3.0)
            if r != ("+", b"PONG"):
                return ("wrong-delivery", "tcp: another connection disturbed", "the innocent connection got %r for PING" % (r,))
        except Exception as e:
            time.sleep(0.3)
            if not self.srv.alive():
                return self.dead()
            return ("hang", "tcp: another connection no longer answers", "the innocent connection no longer answers PING (%s)" % e)
        return None

    def restart(self):
        try:
            self.other.close()
        except Exception:
            pass
        self.srv.stop()
        self.restarts += 1
        self.start()


def tcp_vector(live, vec, r):
    """Send one vector to the real server. Returns (kind, detail, info) of a violation or None."""
    data = bytes(vec["s"])
    cmds = [[bytes(a) for a in c] for c in vec["c"]]
    c = live.srv.client(timeout=3.0)
    c.s.setsockopt(socket.IPPROTO_TCP, socket.TCP_NODELAY, 1)
    problem = None
    try:
        try:
            send_chunked(c.s, data, r)
            sent = True
        except OSError:
            sent = False          # the server closed on us while we were still writing (fine for non-commands)
        if vec["t"] == "eof":
            if not sent:
                problem = ("wrong-delivery", "tcp: connection closed during a well-formed pipeline", {})
            else:
                try:
                    for i in range(len(cmds)):
                        c.read_reply(timeout=3.0)
                    r1 = c.cmd("PING", timeout=3.0)
                    if r1 != ("+", b"PONG"):
                        problem = ("wrong-delivery", "tcp: reply stream out of step after a well-formed pipeline",
                                   {"got_for_ping": repr(r1), "commands": len(cmds)})
                    else:
                        args = [a for cmd in cmds for a in cmd]
                        c.send_raw(b"".join(server.encode([b"PING", a]) for a in args))
                        for a in args:
                            rr = c.read_reply(timeout=3.0)
                            if rr != ("$", a):
                                problem = ("wrong-delivery", "tcp: argument not echoed byte-exact", {"sent": repr(a), "got": repr(rr)})
                                break
                except Exception as e:
                    problem = ("wrong-delivery", "tcp: missing reply in a well-formed pipeline", {"error": repr(e), "commands": len(cmds)})
        elif vec["t"] == "malformed" and sent:
            closed, replies = False, []
            deadline = time.time() + 1.5
            try:
                while time.time() < deadline:
                    replies.append(c.read_reply(timeout=max(0.05, deadline - time.time())))
            except (ConnectionError, OSError) as e:
                closed = not isinstance(e, socket.timeout)
            except Exception:
                closed = True     # undecodable bytes / reset: not silently accepted
            extra_error = len(replies) > len(cmds) and any(x[0] == "-" for x in replies[len(cmds):])
            if not closed and not extra_error:
                problem = ("no-error", "tcp: malformed item neither answered with an error nor closed",
                           {"replies": [repr(x) for x in replies], "commands_before": len(cmds)})
        else:
            c.s.settimeout(0.003)
            try:
                c.s.recv(65536)
            except OSError:
                pass
    finally:
        c.close()
    bad = live.check()
    if bad:
        return (bad[0], bad[1], {"tcp": bad[2]})
    return problem


live = Live()
tcp_checks = tcp_confirmed = 0
# (a) crashers first: one vector per distinct (label, death signature)
crashers = {}
for s in slices:
    for dth in s["deaths"]:
        crashers.setdefault((label(dth["vec"]), dth["detail"]), dth)
notes = []
confirmed_labels = set()
for (lab, detail), dth in sorted(crashers.items()):
    res = None
    for attempt in range(2):
        res = tcp_vector(live, dth["vec"], rng)
        tcp_checks += 1
        if res and res[0] in ("panic", "hang"):
            break
    if res and res[0] in ("panic", "hang"):
        tcp_confirmed += 1
        confirmed_labels.add(lab)
        v.report({"branch": lab, "kind": res[0], "detail": res[1] if res[0] == "panic" else detail},
                 {"stream": dth["vec"]["s"], "text": text(dth["vec"]["s"]), "in_process": {"death": dth["head"], "stderr": dth["stderr"]}, "tcp": res[2],
                  "how": "write these bytes to a connection of the server"},
                 what="stream %s kills the parser goroutine (%s); on the real server over TCP: %s" % (text(dth["vec"]["s"]), dth["head"], res[2]["tcp"]))
        live.restart()
    else:
        notes.append("%s %s" % (lab, detail))
        print("NOTE: in-process death not reproduced on the real server over TCP (not a verdict): %s %s stream=%s" % (lab, detail, text(dth["vec"]["s"])), flush=True)
        if res:
            v.report({"branch": lab, "kind": res[0], "detail": res[1]}, {"stream": dth["vec"]["s"], "tcp": res[2]}, what=str(res))

# (b) every declared-length vector + a seeded sample of all the others
pool = []
per_class = {}
for s in slices:
    per_class[s["mode"]] = per_class.get(s["mode"], 0) + s["vectors"]
for s in slices:
    with open(s["file"]) as f:
        lines = [l for l in f if l.startswith('"')]
    if s["mode"] == "len":
        pick = lines
    else:
        k = TCP_SAMPLE[s["mode"]] * len(lines) // max(1, per_class[s["mode"]]) + 1
        pick = rng.sample(lines, min(k, len(lines)))
    for l in pick:
        pool.append(json.loads(json.loads(l)[4:]))
rng.shuffle(pool)
tcp_by_term = {}
tcp_fails = 0
for vec in pool:
    if tcp_fails >= MAX_TCP_FAILS:
        print("NOTE: TCP sample phase cut short after %d failing vectors" % tcp_fails, flush=True)
        break
    if label(vec) in confirmed_labels:
        continue          # this class already has a confirmed crash; do not restart the server for every sibling
    if live.restarts > MAX_TCP_RESTARTS:
        print("NOTE: TCP sample phase cut short after %d server deaths (the tree is failing; repair the crashers first)" % live.restarts, flush=True)
        break
    res = tcp_vector(live, vec, rng)
    tcp_checks += 1
    tcp_by_term[vec["t"]] = tcp_by_term.get(vec["t"], 0) + 1
    if res:
        tcp_fails += 1
        if res[0] in ("panic", "hang"):
            tcp_confirmed += 1
            confirmed_labels.add(label(vec))
            live.restart()
        v.report({"branch": label(vec), "kind": res[0], "detail": res[1]},
                 {"stream": vec["s"], "text": text(vec["s"]), "expected_commands": vec["c"], "term": vec["t"], "tcp": res[2],
                  "how": "write these bytes to a connection of the server in arbitrary pieces"},
                 what="stream %s over TCP: %s %s" % (text(vec["s"]), res[1], res[2]))
# (c) nothing is executed from the malformed part: a bulk header that declares FEWER bytes than the argument really has (so the
# declared payload is not followed by CR LF: malformed by RespParser.tla's rule), with a complete command embedded at a line
# boundary in the rest of the argument. Whatever the server does with the offending connection (error or close), neither the
# malformed command nor the embedded one may take effect, and the commands before it are answered as usual.
smuggle_checked = 0
for i in range(40 if QUICK else 400):
    if not live.srv.alive():
        live.restart()
    canary = b"canary-%d-%d" % (SEED, i)
    other = b"other-%d-%d" % (SEED, i)
    inner = server.encode([rng.choice([b"SET", b"set", b"RPUSH", b"SADD"]), canary, b"pwned"])
    junk = bytes(rng.choice(b"abcxyz0123") for _ in range(rng.randint(1, 8)))
    payload = junk + b"\r\n" + inner + rng.choice([b"", b"tail", b"\r\n"])
    declared = rng.randint(0, len(junk) - 1)
    k = rng.randint(0, 3)
    prefix = [b"p%d-%d" % (i, j) for j in range(k)]
    stream = b"".join(server.encode([b"PING", p]) for p in prefix) + b"*3\r\n$3\r\nSET\r\n$%d\r\n%s\r\n$%d\r\n" % (len(other), other, declared) + payload + b"\r\n"
    c = live.srv.client(timeout=3.0)
    got, closed = [], False
    try:
        try:
            send_chunked(c.s, stream, rng)
        except OSError:
            pass
        deadline = time.time() + 0.6
        try:
            while time.time() < deadline:
                got.append(c.read_reply(timeout=max(0.05, deadline - time.time())))
        except (ConnectionError, OSError) as e:
            closed = not isinstance(e, socket.timeout)
        except Exception:
            closed = True
    finally:
        c.close()
    smuggle_checked += 1
    bad = live.check()
    what = None
    if bad:
        what = (bad[0], bad[1])
    else:
        probe = live.srv.client(timeout=3.0)
        try:
            ex_c = probe.cmd("EXISTS", canary, timeout=3.0)
            ex_o = probe.cmd("EXISTS", other, timeout=3.0)
        finally:
            probe.close()
        if ex_c != (":", 0):
            what = ("executed-from-malformed-part", "the command embedded in the rest of the malformed argument took effect (EXISTS %s = %r)" % (canary.decode(), ex_c))
        elif ex_o != (":", 0):
            what = ("executed-from-malformed-part", "the command with the malformed argument itself took effect (EXISTS %s = %r)" % (other.decode(), ex_o))
        elif [x for x in got[:k]] != [("$", p) for p in prefix][:len(got[:k])] or (len(got) < k and not closed):
            what = ("wrong-delivery", "the well-formed commands before the malformed one were not answered one by one: %r" % (got[:k + 1],))
    if what:
        v.report({"branch": "malformed.bulk.short-length.embedded-command", "kind": what[0], "detail": ""},
                 {"stream": list(stream), "text": text(list(stream)), "replies": [repr(x) for x in got], "closed": closed,
                  "how": "write these bytes to a connection, then EXISTS <canary> on another connection"},
                 what="stream %s over TCP: %s" % (text(list(stream)), what[1]))
        if what[0] in ("panic", "hang"):
            live.restart()
        break
t_tcp = time.time() - v.t0 - t_build - t_b1

# ------------------------------------------------------------------ 4. B2 random binary pipelines over TCP
SPICE = [b"\r\n", b"\r", b"\n", b"\x00", b"$", b"*", b"$-1\r\n", b"*1\r\n$4\r\nPING\r\n", b"+OK\r\n", b"\xff\xfe", b"-ERR x\r\n"]


def rand_bytes(r, n):
    if n == 0:
        return b""
    mode = r.random()
    if mode < 0.5:
        b = bytearray(r.getrandbits(8) for _ in range(min(n, 512)))
        b = bytes(b) * (n // len(b) + 1)
    elif mode < 0.8:
        parts = []
        ln = 0
        while ln < n:
            p = r.choice(SPICE) if r.random() < 0.5 else bytes([r.getrandbits(8)]) * r.randint(1, 40)
            parts.append(p)
            ln += len(p)
        b = b"".join(parts)
    else:
        b = (b"\r\n" if mode < 0.9 else b"\n\r") * (n // 2 + 1)
    return b[:n]


def rand_len(r):
    x = r.random()
    if x < 0.25:
        return r.choice((0, 1, 2, 3))
    if x < 0.60:
        return r.randint(0, 64)
    if x < 0.80:
        return r.choice((4082, 4083, 4084, 4085, 4086, 4087, 4088, 4089, 4090, 4091, 4092, 4093, 4094, 4095, 4096, 4097, 4098,
                         8190, 8191, 8192, 8193)) + r.randint(-2, 2)
    if x < 0.97:
        return r.randint(65, 5000)
    return r.randint(5000, 65536)


b2_cmds = b2_bytes = b2_fail = 0
keyctr = [0]


def b2_pipeline(r, n_id):
    global b2_cmds, b2_bytes
    n = r.randint(1, 50)
    model, keys, cmds, want = {}, [], [], []
    for _ in range(n):
        x = r.random()
        if x < 0.45 or (x >= 0.70 and not keys):
            a = rand_bytes(r, rand_len(r))
            cmds.append([b"PING", a])
            want.append(("$", a))
        elif x < 0.70:
            if keys and r.random() < 0.3:
                k = r.choice(keys)
            else:
                keyctr[0] += 1
                k = b"c02:%d:%d:%d:" % (SEED, n_id, keyctr[0]) + rand_bytes(r, r.choice((0, 1, 5, 40)))
                keys.append(k)
            val = rand_bytes(r, rand_len(r))
            model[k] = val
            cmds.append([b"SET", k, val])
            want.append(("+", b"OK"))
        elif x < 0.92:
            k = r.choice(keys)
            cmds.append([b"GET", k])
            want.append(("$", model[k]))
        elif x < 0.97:
            k = r.choice(keys)
            cmds.append([b"STRLEN", k])
            want.append((":", len(model[k])))
        else:
            cmds.append([b"PING"])
            want.append(("+", b"PONG"))
    cmds.append([b"PING"])
    want.append(("+", b"PONG"))
    data = b"".join(server.encode(c) for c in cmds)
    b2_cmds += len(cmds)
    b2_bytes += len(data)
    c = live.srv.client(timeout=10.0)
    c.s.setsockopt(socket.IPPROTO_TCP, socket.TCP_NODELAY, 1)
    got, err = [], []

    def reader():
        try:
            for _ in want:
                got.append(c.read_reply(timeout=8.0))
        except Exception as e:
            err.append(repr(e))

    th = threading.Thread(target=reader, daemon=True)
    th.start()
    try:
        send_chunked(c.s, data, r)
    except OSError as e:
        err.append("send: " + repr(e))
    th.join(30.0)
    c.close()
    if th.is_alive():
        err.append("reader stuck")
    for i, (g, w) in enumerate(zip(got, want)):
        if g != w:
            return {"kind": "wrong-delivery", "detail": "tcp pipeline: reply %s differs" % ("kind" if g[0] != w[0] else "value"),
                    "index": i, "command": [repr(a[:80]) for a in cmds[i]], "arg_lengths": [len(a) for a in cmds[i]],
                    "want": repr(w)[:200], "got": repr(g)[:200], "pipeline": [[a.hex() for a in cc] for cc in cmds] if len(data) < 20000 else "too long; seed=%d pipeline=%d" % (SEED, n_id)}
    if len(got) != len(want):
        return {"kind": "wrong-delivery", "detail": "tcp pipeline: missing replies", "got": len(got), "want": len(want), "error": err,
                "arg_lengths": [[len(a) for a in cc] for cc in cmds], "pipeline": [[a.hex() for a in cc] for cc in cmds] if len(data) < 20000 else "too long; seed=%d pipeline=%d" % (SEED, n_id)}
    return None


r2 = random.Random(SEED * 104729 + 5)
b2_done = 0
for i in range(B2_PIPELINES):
    if b2_fail >= MAX_B2_FAILS:
        print("NOTE: B2 phase cut short after %d failing pipelines" % b2_fail, flush=True)
        break
    b2_done += 1
    f = b2_pipeline(r2, i)
    bad = live.check()
    if bad:
        b2_fail += 1
        v.report({"branch": "resp.pipeline.tcp", "kind": bad[0], "detail": bad[1]}, {"seed": SEED, "pipeline": i, "tcp": bad[2], "first": f},
                 what="random binary pipeline #%d (seed %d): %s" % (i, SEED, bad[2]))
        live.restart()
    elif f:
        b2_fail += 1
        v.report({"branch": "resp.pipeline.tcp", "kind": f["kind"], "detail": f["detail"]}, dict(f, seed=SEED, pipeline_no=i),
                 what="random binary pipeline #%d (seed %d): %s" % (i, SEED, {k: f[k] for k in f if k != "pipeline"}))
live.other.close()
live.srv.stop()
t_b2 = time.time() - v.t0 - t_build - t_b1 - t_tcp

# ------------------------------------------------------------------ evidence
samples = []
for s in slices:
    if len(samples) >= 6:
        break
    with open(s["file"]) as f:
        for l in f:
            if l.startswith('"'):
                x = json.loads(json.loads(l)[4:])
                if x["t"] in ("malformed", "eof", "unspec") and len(x["s"]) >= 4 and not any(y["term"] == x["t"] for y in samples):
                    samples.append({"class": x["k"], "stream": text(x["s"]), "expected_commands": [[text(a) for a in c] for c in x["c"]], "term": x["t"], "why": x["w"]})
                    break
if truncated:
    print("NOTE: %d vector slices were cut short after %d process deaths each (the tree is failing; repair the crashers first)" % (len(truncated), MAX_DEATHS_PER_SLICE), flush=True)
cov = {"states": mc.distinct, "transitions": mc.generated, "traces_validated_against_impl": tot["vectors"], "samples": samples,
       "exhaustive": True,
       "explanation": "states/transitions = chunked-parser state machine of spec/RespParser.tla explored by TLC under every Read schedule (%s); " % MC_CFG +
                      "traces_validated_against_impl = test vectors [stream, DecodeAll(stream)] printed by TLC and replayed on the real resp.ParseStream",
       "model_checks": {MC_CFG: {"distinct": mc.distinct, "generated": mc.generated, "depth": mc.depth, "wall_s": round(mc.wall, 1),
                                        "checked": ["ChunkingIndependence", "OutIsPrefix", "NothingAfterStop"]},
                        "MC_RespExact.cfg": {"wall_s": round(mcx.wall, 1), "checked": ["Exactness (ASSUME)", "prefix monotonicity (ASSUME)"]}},
       "vectors": tot["vectors"], "vectors_by_class": by_class, "vectors_by_term": by_term, "branches_covered": len(set(by_why) & ALL_LABELS), "branches_total": len(ALL_LABELS), "corrupted_vectors_rejected": ok_guard, "vectors_by_branch": by_why,
       "chunkings_executed": tot["runs"], "vectors_run_under_every_split": tot["exhaustive"], "all_strings_max_len": ALL_MAXLEN,
       "crashers": tot["deaths"], "crasher_signatures": sorted("%s | %s" % k for k in crashers), "hangs": tot["hangs"], "watchdog_expiries_not_repeated_on_retry": tot["stalls"],
       "slices_cut_short": len(truncated), "in_process_deaths_not_reproduced_over_tcp": notes,
       "tcp_checks": tcp_checks, "tcp_checks_by_term": tcp_by_term, "tcp_confirmed_crashes": tcp_confirmed, "tcp_server_restarts": live.restarts,
       "b2_pipelines": b2_done, "b2_commands": b2_cmds, "b2_bytes": b2_bytes, "b2_failures": b2_fail,
       "wall_split_s": {"build": round(t_build, 1), "tlc+respcheck": round(t_b1, 1), "tcp": round(t_tcp, 1), "b2": round(t_b2, 1)}}
v.finish(tier, "model_checking", cov, [
    "reference decoder = spec/RespParser.tla DecodeAll; Exactness and agreement with the chunked state machine are checked by TLC",
    "well-formed non-command values (inline text, +OK, null/empty array, top-level bulk, nested / non-bulk array elements, odd length spellings) are 'unspec': "
    "only the commands before them, no crash and no hang are required (DESIGN 2.4)",
    "a malformed item must end the deliveries with an error (in process) / an error reply or a close (TCP); error texts are not compared",
    "exhaustive over all strings of the 8-symbol alphabet up to length %d; every split of streams <= 10 bytes (quick) / of the enumerated strings up to 6 bytes and of "
    "wf/mut/len streams <= 10 bytes (thorough; the strings of length 7 run under 17 schedules); longer streams under 5 adversarial + 4 seeded splits" % ALL_MAXLEN,
    "process deaths of the in-process driver are verdicts only when reproduced on the real server binary over TCP",
    "B2 replies are matched against a Python dictionary model (PING echo, SET/GET/STRLEN on fresh keys), not by TLC"])
