#!/usr/bin/env python3
"""C08 - acknowledged cluster writes survive crashes and restarts, also after log compaction / snapshotting; taking a
snapshot never takes a node down.

Technique (DESIGN.md C08): spec/Cluster.tla is the durability model of cluster mode at the grain of the code (Ready loop
split as raftexample/raft.go orders it, apply goroutine, reply, snapshot, crash at every stage, restart = load snapshot +
replay WAL + re-apply).  TLC checks Durability, AckAfterDurable, SnapshotNeverKills on instances with the as-built flags
switched off (must hold; failure = exit 2) and produces, with the flags as built, the counterexamples that are the LEADS
for the recorded findings.  The model is bound to the code by
  B1  crash-point enumeration on REAL node processes: TLC emits the crash-point classes of the model (stage = crash gate
      of the verif hooks, snapshot before?, nodes already down); for every class the driver (lib/c08_driver.py) runs real
      3-node / 1-node clusters, kills nodes exactly between two stages (VERIF_CRASH_AT) or with kill -9 under load,
      restarts, waits until the cluster serves, reads every acknowledged key through EVERY node's own port;
  B2  the hook traces of every node of every scenario are validated by TLC against spec/TraceCluster.tla.
Verdicts come only from real executions: an acknowledged write missing / different after recovery, a node that died by
itself (not at a crash gate), or a cluster that never serves again.  Known findings are printed, anything else exits 1.

usage: python3 checks/C08.py quick|thorough        (VERIF_SEED, VERIF_REPO honoured)
       python3 checks/C08.py replay <replay.json>  (re-runs the scenario of a VIOLATION artefact)
"""
import concurrent.futures, json, os, random, sys, threading, time
import common, ks, server
import c08_driver as D

NOLIST = ["string", "hash", "set", "zset", "stream"]
LOOP_GATES = ["ready", "walsave", "append", "send", "publish", "advance"]
CMD_GATES = ["propose", "apply", "reply"]
SNAP_GATES = ["snapshot_start", "snapshot_done"]


# ------------------------------------------------------------------------------------------------ TLC

def tlc(cfg, workers, heap, timeout, args=(), line_cb=None):
    return common.run_tlc("MC_Cluster", cfg="MC_Cluster_%s.cfg" % cfg, workers=workers, heap=heap, timeout=timeout,
                          args=args, line_cb=line_cb)


def model_must_hold(name, workers, heap, timeout, out):
    r = tlc(name, workers, heap, timeout)
    common.tlc_ok(r, "MC_Cluster_%s (flags TRUE: Durability, AckAfterDurable, SnapshotNeverKills must hold)" % name)
    out[name] = {"states": r.distinct, "transitions": r.generated, "depth": r.depth, "wall_s": round(r.wall, 1)}


def lead(name, expect, scratch):
    """As-built instance: TLC must find the counterexample; it is returned as a list of action names + what crashed."""
    path = os.path.join(scratch, "lead_%s.json" % name)
    r = tlc(name, 8, "4g", 600, args=("-dumpTrace", "json", path))
    if r.timed_out or r.error:
        common.die_infra("TLC failed on MC_Cluster_%s:\n%s" % (name, r.out[-2000:]))
    if r.violated != expect or not os.path.exists(path):
        common.die_infra("as-built instance MC_Cluster_%s: expected a counterexample to %s, got %s\n%s" % (name, expect, r.violated, r.out[-1500:]))
    tr = json.load(open(path))["counterexample"]["action"]
    steps = []
    crashed = []
    for pre, act, post in tr:
        nm = act["name"]
        ctx = act.get("context", {})
        steps.append(nm + "(" + ",".join(str(ctx[k]) for k in act.get("parameters", [])) + ")")
        if nm == "Crash":
            n = ctx["n"]
            st = pre[1]
            crashed.append({"node": n, "pc": st["pc"][n], "had_snapshot": len(st["wal"][n]["snaps"]) > 0})
    final = tr[-1][2][1]
    return {"instance": name, "violates": expect, "steps": steps, "crashes": crashed, "log": final["log"],
            "restarted": [s[8:-1] for s in steps if s.startswith("Restart(")], "died_at_snapshot": final["diedAtSnap"],
            "states": r.distinct}


def crash_classes():
    """Crash-point classes of the model (MC_Cluster_scen: every Crash transition of a 2-node instance)."""
    tally = {}

    def cb(line):
        if line.startswith('"CRASHPT '):
            try:
                rec = json.loads(json.loads(line)[8:])
            except Exception:
                return True
            k = (rec["gate"], rec["pc"], rec["snap"], rec["down"], rec["unsaved"], rec["waiting"])
            tally[k] = tally.get(k, 0) + 1
            return True
        return False
    r = tlc("scen", 8, "4g", 900, line_cb=cb)
    common.tlc_ok(r, "MC_Cluster_scen")
    return tally, r


# ------------------------------------------------------------------------------------------------ scenarios

def build_scenarios(tier, seed, classes, leads):
    rng = random.Random(seed * 7919 + (1 if tier == "quick" else 2))
    scs = []

    def add(cls, **kw):
        sc = {"id": "%s-%03d" % (tier[0], len(scs)), "cls": cls, "nodes": 3, "snapcount": 0, "catchup": None, "kinds": D.KINDS,
              "nwrites": 120, "victims": [], "then": "victims", "seed": rng.randrange(1 << 30), "entry": 0}
        sc.update(kw)
        if sc["snapcount"] and sc.get("catchup") is None:
            sc["catchup"] = rng.randint(1, sc["snapcount"])
        scs.append(sc)
        return sc

    # -- the TLC leads, realised on real clusters
    f1 = leads["F1"]
    nvict = max(1, len(set(f1["restarted"])))
    add("restart.after_snapshot", kinds=NOLIST, snapcount=rng.randint(5, 9), nwrites=36,
        victims=[], then="all" if nvict >= 3 else "victims", lead="F1",
        late_kill=list(range(min(3, nvict))))
    add("snapshot.taken", kinds=["string", "list"], snapcount=rng.randint(5, 9), nwrites=40, lead="F2")
    add("snapshot.taken", kinds=NOLIST, snapcount=rng.randint(5, 9), nwrites=40, then="none")
    add("catchup.lagging_node", mode="lag", kinds=NOLIST, snapcount=rng.randint(12, 16), catchup=2, nwrites=50,
        victims=[{"node": rng.randrange(3), "gate": "kill"}], entry=0)
    # -- restart without any fault in between (all crash, all restart), 3 nodes and 1 node
    add("restart.clean", then="all", nwrites=40, order=rng.sample(range(3), 3))
    add("restart.clean", nodes=1, then="all", nwrites=40)
    # -- crash gates: every stage of the loop that the model reports as a crash point
    model_gates = sorted(set(k[0] for k in classes))
    occs = [1] if tier == "quick" else [1, 2, 3]
    sizes = [1, 2, 3]
    gi = 0
    for gate in LOOP_GATES + CMD_GATES:
        if gate in LOOP_GATES and gate not in model_gates:
            common.die_infra("crash gate %s is not a crash point of the model (MC_Cluster_scen)" % gate)
        for occ in occs:
            for size in (sizes if tier == "thorough" else [sizes[gi % 3]]):
                gi += 1
                nodes = 3
                vs = rng.sample(range(3), size)
                entry = vs[0] if (gate in CMD_GATES or rng.random() < 0.5) else rng.choice([i for i in range(3) if i not in vs] or [vs[0]])
                victims = []
                for j, nd in enumerate(vs):
                    if gate in LOOP_GATES:
                        n = rng.randint(50, 110) + 70 * (occ - 1) + 25 * j
                    else:
                        n = rng.randint(10, 22) + 14 * (occ - 1) + 9 * j
                    victims.append({"node": nd, "gate": "%s#%d" % (gate, n)})
                add("crash." + gate, victims=victims, entry=entry, nwrites=400, min_after=4,
                    then="all" if (gi % 2 == 0) else "victims", order=rng.sample(range(3), 3))
    # single-node cluster: the node IS the quorum; pipelined PING makes `propose` a gate right after an acknowledgement left
    for occ in occs:
        add("crash.after_ack", nodes=1, big=rng.choice([0, 2000, 150000]), pipelined=True, nwrites=80,
            victims=[{"node": 0, "gate": "propose#%d" % (rng.randint(12, 30) * occ)}])
        add("crash.walsave", nodes=1, nwrites=200, victims=[{"node": 0, "gate": "walsave#%d" % (rng.randint(40, 90) * occ)}])
    # -- crashes around the snapshot (threshold 5..20); with the snapshot never loaded these end in the known finding
    for gate in SNAP_GATES:
        for occ in occs:
            add("crash." + gate, kinds=NOLIST, snapcount=rng.randint(5, 20), nwrites=300, min_after=4,
                victims=[{"node": rng.randrange(3), "gate": "%s#%d" % (gate, occ)}], entry=rng.randrange(3),
                then=rng.choice(["victims", "all"]))
    if tier == "thorough":
        for gate in LOOP_GATES + CMD_GATES:
            vs = rng.sample(range(3), rng.randint(1, 3))
            add("crash." + gate, kinds=NOLIST, snapcount=rng.randint(5, 20), nwrites=400, min_after=4,
                victims=[{"node": nd, "gate": "%s#%d" % (gate, rng.randint(60, 160) if gate in LOOP_GATES else rng.randint(12, 40))} for nd in vs],
                entry=vs[0], then=rng.choice(["victims", "all"]))
    if tier == "thorough":      # every gate once more on a single-node cluster (the node is the quorum)
        for gate in LOOP_GATES + CMD_GATES:
            add("crash." + gate, nodes=1, nwrites=300, min_after=3, big=rng.choice([0, 0, 1200]),
                victims=[{"node": 0, "gate": "%s#%d" % (gate, rng.randint(40, 120) if gate in LOOP_GATES else rng.randint(10, 40))}])
    # -- kill -9 at random instants under load (the stages without a gate of their own are only reached this way)
    for i in range(2 if tier == "quick" else 24):
        size = 1 + i % 3
        vs = rng.sample(range(3), size)
        add("kill.under_load", nwrites=600, load_s=6, min_after=4, entry=rng.randrange(3),
            victims=[{"node": nd, "gate": "kill", "delay": round(rng.uniform(0.05, 1.2), 3)} for nd in vs],
            then="all" if i % 2 else "victims", order=rng.sample(range(3), 3), big=rng.choice([0, 0, 3000]))
    if tier == "thorough":
        for i in range(4):
            add("kill.under_load", kinds=NOLIST, snapcount=rng.randint(5, 20), nwrites=600, load_s=6, entry=rng.randrange(3),
                victims=[{"node": nd, "gate": "kill", "delay": round(rng.uniform(0.05, 1.5), 3)} for nd in rng.sample(range(3), 1 + i % 3)],
                then="all", order=rng.sample(range(3), 3))
    # -- an acknowledgement needs a quorum
    for i in range(1 if tier == "quick" else 3):
        add("ack.without_quorum", mode="noquorum", nwrites=6, entry=rng.randrange(3))
    # -- torn last WAL record of one node (power loss during a multi-sector write; kill -9 alone cannot tear)
    for i in range(1 if tier == "quick" else 3):
        add("restart.torn_wal_tail", big=1500, nwrites=24, then="all", tear=[rng.randrange(3)])
    return scs


def run_all(scs, par, v, cov):
    results = []
    lock = threading.Lock()

    def one(sc):
        t0 = time.time()
        r = D.run_scenario(prepare(sc))
        r["wall_s"] = round(time.time() - t0, 1)
        # timing-sensitive: one retry for an inconclusive scenario
        if r["outcome"] == "inconclusive":
            r2 = D.run_scenario(prepare(dict(sc, id=sc["id"] + "r")))
            r2["wall_s"] = round(time.time() - t0, 1)
            r2["retried"] = r.get("why")
            if r2["outcome"] == "inconclusive" and r.get("why_code") == "unserved" and r2.get("why_code") == "unserved":
                # twice in a row: every process alive after the restart, the cluster booted normally before, and it never
                # serves again within many times its boot time -> the cluster does not come back (real violation)
                r2["outcome"] = "violation"
                r2["violations"] = [{"sig": {"branch": sc["cls"], "kind": "unavailable", "detail": "processes alive, no service"},
                                     "what": "after the restart every node process is alive but the cluster does not answer any command "
                                             "(two attempts; booted in %.1f s before the crash): %s" % (r2["facts"].get("boot_s", -1), r2.get("why")), "extra": {}}]
            r = r2
        if os.environ.get("VERIF_VERBOSE"):
            print("  scenario %s %-24s %-12s %5.1fs %s %s" % (r["id"], r["cls"], r["outcome"], r["wall_s"],
                  [x["sig"]["branch"] + "/" + x["sig"]["kind"] for x in r["violations"]], r.get("why", "")[:100]), flush=True)
        return r
    with concurrent.futures.ThreadPoolExecutor(max_workers=par) as ex:
        for r in ex.map(one, scs):
            results.append(r)
    return results


def prepare(sc):
    """Scenario dict -> what the driver runs (late_kill = victims killed by the driver once the workload is through)."""
    sc = dict(sc)
    if sc.get("late_kill") is not None:
        sc["then_kill"] = sc["late_kill"]
    return sc


# ------------------------------------------------------------------------------------------------ B2

def validate_traces(traces, scratch, nfiles, v, cov, demo=True):
    """traces: [(src, events)].  Returns (events validated, failures [(src, record)])."""
    files = []
    per = max(1, (len(traces) + nfiles - 1) // nfiles)
    total = 0
    for i in range(0, len(traces), per):
        path = os.path.join(scratch, "trace-%02d.ndjson" % (i // per))
        with open(path, "w") as fh:
            for src, evs in traces[i:i + per]:
                for rec in D.normalise(evs, src):
                    fh.write(json.dumps(rec) + "\n")
                    total += 1
        files.append(path)

    def val(path):
        r = common.run_tlc("TraceCluster", workers=1, heap="2g", extra_env={"TRACE": path}, timeout=1200)
        if r.timed_out or r.rc != 0 or "Model checking completed. No error" not in r.out:
            common.die_infra("TraceCluster failed on %s:\n%s" % (path, r.out[-2000:]))
        fails = []
        for line in r.out.splitlines():
            if line.startswith('"'):
                try:
                    s = json.loads(line)
                except Exception:
                    continue
                if s.startswith("CLFAIL "):
                    fails.append(json.loads(s[7:]))
        return fails
    fails = []
    with concurrent.futures.ThreadPoolExecutor(max_workers=min(4, len(files) or 1)) as ex:
        for fl in ex.map(val, files):
            fails += fl
    return total, fails, files


def corruption_demo(traces, scratch):
    """DESIGN 4.2: a recorded, accepted trace with one event dropped / one field corrupted must be rejected."""
    src, evs = max(traces, key=lambda t: sum(1 for e in t[1] if e.get("ev") == "reply"))
    base = D.normalise(evs, "demo/accepted")
    walsaves = [i for i, e in enumerate(base) if e["ev"] == "walsave" and e["a"] > 0]
    replies = [i for i, e in enumerate(base) if e["ev"] == "reply"]
    publishes = [i for i, e in enumerate(base) if e["ev"] == "publish" and e["a"] > 3]
    if not walsaves or not replies or not publishes:
        return None
    dropped = [dict(e, src="demo/dropped-walsave") for i, e in enumerate(base) if i != walsaves[len(walsaves) // 2]]
    renum = []
    # dropping an event AND closing the gap in the numbering: the stage order must still betray it
    skip = walsaves[len(walsaves) // 2]
    inc_start = max(i for i in range(skip + 1) if base[i]["seq"] == 1)
    for i, e in enumerate(base):
        if i == skip:
            continue
        e = dict(e, src="demo/dropped-walsave-renumbered")
        nxt = [j for j in range(skip + 1, len(base)) if base[j]["seq"] == 1]
        end = nxt[0] if nxt else len(base)
        if skip < i < end and e["ev"] != "reset":
            e["seq"] -= 1
        renum.append(e)
    wrongid = [dict(e, src="demo/corrupted-reply-id") for e in base]
    wrongid[replies[len(replies) // 2]] = dict(wrongid[replies[len(replies) // 2]], id="00000000-dead-beef-0000-000000000000")
    regress = [dict(e, src="demo/corrupted-applied") for e in base]
    target = None
    for a, b in zip(publishes, publishes[1:]):     # two publish events of one incarnation, the later not ahead by more than 1
        if not any(base[j]["seq"] == 1 for j in range(a + 1, b + 1)) and base[b]["a"] - base[a]["a"] <= 1:
            target = b
    if target is None:
        return None
    regress[target] = dict(regress[target], a=regress[target]["a"] - 2)
    path = os.path.join(scratch, "trace-demo.ndjson")
    with open(path, "w") as fh:
        for t in (base, dropped, renum, wrongid, regress):
            for rec in t:
                fh.write(json.dumps(rec) + "\n")
    r = common.run_tlc("TraceCluster", workers=1, heap="2g", extra_env={"TRACE": path}, timeout=600)
    if r.timed_out or r.rc != 0:
        common.die_infra("TraceCluster failed on the corruption demo:\n%s" % r.out[-2000:])
    got = {}
    for line in r.out.splitlines():
        if line.startswith('"'):
            try:
                s = json.loads(line)
            except Exception:
                continue
            if s.startswith("CLFAIL "):
                f = json.loads(s[7:])
                got[f["src"]] = f["why"]
    want = ["demo/dropped-walsave", "demo/dropped-walsave-renumbered", "demo/corrupted-reply-id", "demo/corrupted-applied"]
    return {"trace": src, "events": len(base), "accepted_original": "demo/accepted" not in got,
            "rejected": {k: got.get(k) for k in want}, "ok": "demo/accepted" not in got and all(w in got for w in want)}


# ------------------------------------------------------------------------------------------------ main

def replay(path):
    art = json.load(open(path))
    sc = art["replay"]["scenario"]
    r = D.run_scenario(prepare(sc))
    r.pop("traces", None)
    print(json.dumps({k: r[k] for k in ("outcome", "violations", "facts") if k in r}, indent=1, default=str))
    sys.exit(1 if r["outcome"] == "violation" else 0)


def main():
    if len(sys.argv) > 2 and sys.argv[1] == "replay":
        replay(sys.argv[2])
    tier = common.tier_arg()
    seed = common.seed()
    v = common.Verdict("C08")
    scratch = common.scratch("c08-")
    t0 = time.time()
    server.build_server("verif")      # build once, before threads start
    cov = {"model_instances": {}, "samples": [], "leads": {}}

    # -- 1. TLC: crash-point classes and the as-built leads (fast), then the must-hold instances in the background
    with concurrent.futures.ThreadPoolExecutor(max_workers=4) as ex:
        fcls = ex.submit(crash_classes)
        fl = {n: ex.submit(lead, n, inv, scratch) for n, inv in (("F1", "Durability"), ("F2", "SnapshotNeverKills"), ("F3", "Durability"))}
        classes, rscen = fcls.result()
        leads = {n: f.result() for n, f in fl.items()}
    cov["model_instances"]["scen"] = {"states": rscen.distinct, "transitions": rscen.generated, "crash_transitions": sum(classes.values()),
                                      "crash_point_classes": len(classes)}
    for n, ld in leads.items():
        cov["leads"][n] = {"violates": ld["violates"], "steps": ld["steps"], "crashes": ld["crashes"], "restarted": ld["restarted"],
                           "died_at_snapshot": ld["died_at_snapshot"]}
    print("C08: model crash-point classes: %d (gates %s); as-built leads: F1 %d steps, F2 %d steps, F3 %d steps  [%.0fs]" %
          (len(classes), ",".join(sorted(set(k[0] for k in classes))), len(leads["F1"]["steps"]), len(leads["F2"]["steps"]),
           len(leads["F3"]["steps"]), time.time() - t0), flush=True)
    must = ["one", "three_quick"] if tier == "quick" else ["one", "two", "three"]
    models = {}
    bg = concurrent.futures.ThreadPoolExecutor(max_workers=1)

    def bg_models():
        for n in must:
            model_must_hold(n, 6 if tier == "quick" else 10, "6g" if tier == "quick" else "16g", 1500, models)
        if tier == "thorough":
            # random simulation of the 3-node / 3-write instance WITHOUT the Serial restriction
            r = tlc("sim", 6, "6g", 1500, args=("-simulate", "num=3000", "-depth", "160", "-seed", str(seed)))
            common.tlc_ok(r, "MC_Cluster_sim (random simulation)")
            import re
            m = re.search(r"(\d+) states checked, (\d+) traces generated", r.out)
            models["sim"] = {"states": 0, "transitions": 0, "simulated_states": int(m.group(1)) if m else 0,
                             "simulated_traces": int(m.group(2)) if m else 0, "wall_s": round(r.wall, 1)}
            must.append("sim")
    fmodels = bg.submit(bg_models)

    # -- 2. B1: scenarios on real clusters
    scs = build_scenarios(tier, seed, classes, leads)
    # failover witnesses (lib/clusterscen.py): the model's AckAfterDurable says an acknowledged write is in the WAL of a quorum;
    # the schedule that tells the difference on real nodes is: quorum {L, F}, F dies between two stages of its Ready loop,
    # L is lost, {F, P} must still have every acknowledged write. One per stage boundary in the thorough tier.
    import clusterscen, conc
    fgates = [("send", 120), ("walsave", 120)] if tier == "quick" else [(g, o) for g in ("ready", "walsave", "append", "send", "publish", "advance") for o in (60, 200)]
    fex = concurrent.futures.ThreadPoolExecutor(max_workers=2 if tier == "quick" else 3)
    ffut = [fex.submit(clusterscen.failover, ("failover-after-follower-crash-at-%s#%d" % (g, o), g, o, 900 + i), seed, scratch) for i, (g, o) in enumerate(fgates)]
    results = run_all(scs, 8 if tier == "quick" else 10, v, cov)
    fres = [f.result() for f in ffut]
    fex.shutdown()
    # a node that is the only one running (restarted alone after a crash of the whole cluster) has no quorum: nothing it
    # acknowledges in that time can be durable. Whatever it does acknowledge must still be there after the full restart.
    lp = None
    for attempt in range(2):
        lp, lstats = clusterscen.lone_restart_ack(seed=seed + attempt)
        if lp is not None:
            break
    cov["lone_restart"] = lstats
    if lp is None:
        print("NOTE: scenario lone-restart inconclusive (%s)" % lstats.get("inconclusive"), flush=True)
    for pr in lp or []:
        v.report({"branch": "restart.lone_node", "kind": pr["kind"], "detail": "acknowledged-without-quorum" if pr.get("acknowledged_by_lone_node") else ""}, pr,
                 what="whole cluster killed, node 1 restarted alone and written to, then everything restarted: %s" % pr["detail"])
    # a node restarted from its own snapshot crosses its snapshot threshold again, one entry per Ready
    sbp, sbstats = None, {}
    for attempt in range(2):
        sbp, sbstats = clusterscen.snapshot_boundary(n=20, seed=seed + attempt)
        if sbp is not None:
            break
    cov["snapshot_boundary"] = sbstats
    if sbp is None:
        print("NOTE: scenario snapshot-boundary inconclusive (%s)" % sbstats.get("inconclusive"), flush=True)
    for pr in sbp or []:
        v.report({"branch": "snapshot.boundary", "kind": pr["kind"], "detail": "restarted-from-snapshot" if pr.get("restarted_from_snapshot") else ""}, pr, what=pr["detail"])
    cov["failover_scenarios"] = {}
    for r in fres:
        cov["failover_scenarios"][r["name"]] = dict(r["stats"], inconclusive=r["inconclusive"])
        for sig, replay, what in r["violations"]:
            v.report(sig, replay, what=what)
        if r["inconclusive"]:
            print("NOTE: scenario %s inconclusive (%s)" % (r["name"], r["inconclusive"]), flush=True)
        if r["path"]:
            nonlin, _ = conc.validate_hist_split(r["path"])
            for n in nonlin:
                hist = conc.history_of(n["path"], n["sub_h"])
                v.report({"branch": "failover." + r["name"].split("-at-")[1].split("#")[0], "kind": "lost-write", "detail": "acknowledged write not on the surviving quorum"},
                         {"scenario": r["name"], "faults": r["stats"]["faults"], "history_tail": hist[-60:], "failing_response": n},
                         what="%s (%s): after the failover the surviving quorum returns %s for %s, which no order of the acknowledged writes explains" % (
                             r["name"], "; ".join(r["stats"]["faults"]), ks.show_reply(n["got"]), ks.show_argv(n["argv"])))
    print("C08: %d scenarios on real clusters done  [%.0fs]" % (len(results), time.time() - t0), flush=True)
    fmodels.result()
    bg.shutdown()
    for n in must:
        cov["model_instances"][n] = models[n]

    # -- 3. verdicts
    by_outcome = {}
    classes_exercised = {}
    traces = []
    readbacks = 0
    for r in results:
        by_outcome[r["outcome"]] = by_outcome.get(r["outcome"], 0) + 1
        f = r["facts"]
        sc = r["scenario"]
        traces += r.get("traces", [])
        readbacks += f.get("keys_read", 0)
        if r["outcome"] != "inconclusive":
            crashed = bool(f.get("restarted")) or f.get("died_at_snapshot")
            acked = f.get("acked", 0) or f.get("acked_before_last_crash", 0) or len([1 for x in r["violations"]])
            if crashed and acked:
                classes_exercised[sc["cls"]] = classes_exercised.get(sc["cls"], 0) + 1
        for viol in r["violations"]:
            v.report(viol["sig"], {"scenario": sc, "facts": f, "violation": viol, "rerun": "python3 checks/C08.py replay <this file>"}, viol["what"])
        if len(cov["samples"]) < 6 and r["outcome"] != "inconclusive" and (len(cov["samples"]) < 3 or r["violations"]):
            cov["samples"].append({"scenario": {k: sc[k] for k in ("id", "cls", "nodes", "snapcount", "victims", "then", "kinds") if k in sc},
                                   "outcome": r["outcome"], "facts": f,
                                   "violations": [x["sig"] for x in r["violations"]], "wall_s": r.get("wall_s")})
    inconclusive = [{"id": r["id"], "cls": r["cls"], "why": r.get("why", "")[:200]} for r in results if r["outcome"] == "inconclusive"]

    # -- 4. B2
    nev, fails, files = validate_traces(traces, scratch, 4 if tier == "quick" else 8, v, cov)
    demo = corruption_demo(traces, scratch) if traces else None
    divergences = {}
    seen_hs = set()
    for f in fails:
        if f["why"].startswith("recovered:"):
            # not a matter of conformance: the node itself reports, at its restart, a hard state behind the one it had sent
            # messages with - a vote or a term that was acted upon and not made durable (it can vote twice in one term)
            if f["why"] not in seen_hs:
                seen_hs.add(f["why"])
                v.report({"branch": "restart.hardstate", "kind": "persisted-behind-acted", "detail": f["why"].split(":")[1].strip()[:60]}, f,
                         what="event trace of node %s: %s" % (f["src"], f["why"]))
            continue
        divergences.setdefault(f["why"], []).append(f["src"])
    for why, srcs in divergences.items():
        print("DIVERGENCE property=C08 hook trace not a behaviour of TraceCluster.tla: %s (%d traces, e.g. %s)" % (why, len(srcs), srcs[0]), flush=True)

    states = sum(m["states"] for k, m in cov["model_instances"].items())
    trans = sum(m["transitions"] for k, m in cov["model_instances"].items())
    cov.update({
        "evaluations": len(results) - len(inconclusive),
        "distinct_nontrivial": len(classes_exercised),
        "rule": "one evaluation = one scenario (workload prefix, snapshot threshold, victim set, crash gate <stage>#<occurrence> or kill -9 "
                "instant, restart order) executed on a real cluster up to the read-back of every acknowledged key through every node; "
                "distinct_nontrivial = distinct scenario classes (crash stage / fault kind) in which at least one write had been acknowledged, "
                "at least one node really went down and was restarted (measured from process exit and hook traces), and the read-back ran",
        "classes_exercised": classes_exercised,
        "scenarios": len(results), "outcomes": by_outcome, "skipped_inconclusive": inconclusive,
        "readback_comparisons": readbacks,
        "states": states, "transitions": trans,
        "traces_validated_against_impl": len(traces), "trace_events_validated": nev, "trace_divergences": {k: len(x) for k, x in divergences.items()},
        "trace_corruption_demo": demo,
        "model_crash_point_classes": sorted(set("%s%s" % (k[0], "+snapshot" if k[2] else "") for k in classes)),
        "exhaustive": False,
    })
    assumptions = [
        "consensus is assumed in Cluster.tla (one agreed log; commit = saved by a quorum; C15 checks the Raft core)",
        "a crash is a process kill (SIGKILL at a hook gate or at a random instant): page-cache contents survive; the only "
        "storage-level fault is the emulated torn last WAL record (restart.torn_wal_tail)",
        "an unacknowledged write may or may not be visible after recovery, at any later time",
        "3-node TLC instances restrict schedules to one node inside a Ready cycle at a time (Serial) and use a partial-order "
        "reduction for node-local volatile steps; the 1- and 2-node instances explore all interleavings",
    ]
    print("C08: tier=%s seed=%d scenarios=%d %s classes_exercised=%d traces=%d events=%d model_states=%d wall=%.0fs" %
          (tier, seed, len(results), by_outcome, len(classes_exercised), len(traces), nev, states, time.time() - t0), flush=True)
    # -- 5. what a restarting node rebuilds from its own directories (spec/Recover.tla, every bounded behaviour replayed through
    # the real wal / snap packages and the node's own loadSnapshot + replayWAL): an entry of a completed save that is not
    # recovered is an acknowledged write this node no longer has
    import recoverlib
    recoverlib.run(tier, v, "C08", cov)
    if any("snapshot of a Ready is saved after" in why for why in divergences):
        # B3: the observed order of the durable steps is given to Recover.tla; its behaviours are replayed on real files
        recoverlib.run(tier, v, "C08", cov, as_observed="save_first")
    for gate in (["walsave"] if tier == "quick" else ["savesnap", "walsave", "append"]):
        probs, st = clusterscen.snapshot_install_crash(gate, seed=seed)
        cov.setdefault("ready_loop_snapshot_install", {})[gate] = st
        for pr in probs or []:
            v.report({"branch": "readyloop.snapshot-install", "kind": pr["kind"], "detail": gate}, pr, what=pr["detail"])
        if st.get("ready_snapshot_order") == "save_first" and "recover_model_as_observed" not in cov:
            print("DIVERGENCE property=C08 the Ready loop saved the hard state of a snapshot-carrying Ready before the snapshot; instantiating Recover.tla with the observed order", flush=True)
            recoverlib.run(tier, v, "C08", cov, as_observed="save_first")
    if not v.violations:
        if divergences:
            common.die_infra("conformance divergence without a reproduced property violation (see DIVERGENCE lines): the real nodes "
                             "left the stage structure of Cluster.tla, but no scenario lost an acknowledged write")
        if demo is not None and not demo["ok"]:
            common.die_infra("trace-corruption demo: TraceCluster did not behave as required: %s" % demo)
        if len(inconclusive) > max(3, len(results) // 4):
            common.die_infra("too many inconclusive scenarios: %s" % inconclusive[:5])
        if len(classes_exercised) < 2:
            common.die_infra("fewer than 2 scenario classes really exercised a crash and a restart")
    v.finish(tier, "fault_enumeration", cov, assumptions)


if __name__ == "__main__":
    main()
