#!/usr/bin/env python3
"""C10 hashes: B1 tours of MC_Hash + B2 random hash programmes (TraceKs.tla)."""
import common, ks, sched
tier = common.tier_arg()
LABELS = ('hset', 'hsetnx', 'hget', 'hmget', 'hgetall', 'hkeys', 'hvals', 'hlen', 'hexists', 'hstrlen', 'hdel', 'hincrby', 'hincrbyfloat', 'hrandfield')
ks.family_check(
    "C10", tier,
    b1_instances=[('MC_Hash', 'MC_Hash.cfg')] if tier == "quick" else [('MC_Hash', 'MC_Hash_thorough.cfg')],
    b2_families=['hash'],
    level_text="", assumptions=['reference semantics = Redis command reference as transcribed in spec/KsHash.tla', 'float arithmetic only on the exactly-representable subset (DESIGN.md 2.4); operands longer than 15 bytes are unmodelled', 'B1 exhaustive within the instance bounds; B2 sampled'],
    b2_progs=400 if tier == "quick" else 6000,
    label_filter=lambda b: b.split(".")[0] in LABELS, extra=sched.family_extra("C10", "hash"))
