#!/usr/bin/env python3
"""C05 linearizable single-key operations under concurrency.
B1 (schedules): lib/sched.py - TLC enumerates preemption-bounded interleavings of pairs and triples of single-key
commands from their observed lock / map-access programmes (spec/Sched.tla, MC_Sched.tla); harness/cmd/sched replays each
on the real code under a deterministic scheduler (gates at hooks H1/H2) and TraceLin decides every distinct history.
B2: harness/cmd/conc runs many short histories (2-6 client goroutines x 1-6 commands on keys chosen to collide on lock
stripes / map shards, seeded yields at every lock request) against one shared server through Manager.ExecCommand; each
history, followed by a sequential read-back of every key, is checked for linearizability by TLC (spec/TraceLin.tla:
sequential meaning = Keyspace.Exec, just-in-time linearization over the set of candidate configurations). At quiescence
the driver checks key counter = stored keys, KEYS/EXISTS agreement, list link structure and lock hygiene; a churn
workload (8-16 clients creating/deleting distinct keys while others run KEYS *) targets the shared key counter."""
import concurrent.futures, json
import common, ks, conc, sched

tier = common.tier_arg()
v = common.Verdict("C05")
seed = common.seed()
NH = 400 if tier == "quick" else 12000
r = conc.run_conc("lin", NH, clients=5, ops=5, seed=seed)
churn = conc.run_conc("deadlock", 160 if tier == "quick" else 3000, clients=6, ops=6, seed=seed + 7)
# the same two drivers built with Go's race detector: an access to shared memory that no lock orders with a conflicting one
# is reported whether or not the two happened to collide this time
rr = conc.run_conc("lin", 1200 if tier == "quick" else 12000, clients=6, ops=6, seed=seed + 13, race=True)
rc = conc.run_conc("deadlock", 160 if tier == "quick" else 2000, clients=6, ops=6, seed=seed + 17, race=True)
rp = conc.run_conc("pairs", 0, clients=2, ops=1, seed=seed, race=True)      # every pair of a family's single-key commands on one key
cov = {"states": 0, "transitions": 0, "traces_validated_against_impl": 0, "samples": [], "histories": r["histories"], "operations": r["operations"],
       "churn_histories": churn["histories"], "churn_operations": churn["operations"], "quiescent_points_checked": r["histories"] + churn["histories"]}
for src in (rr, rc, rp):
    for rc_ in src["races"]:
        v.report({"branch": "conc.race", "kind": "data-race", "detail": " || ".join(sorted(rc_["sites"]))[:160]}, rc_,
                 what="unsynchronised accesses to the same memory by two commands (Go race detector, %d reports): %s" % (rc_["count"], " and ".join(rc_["sites"])))
cov["race_detector_histories"] = rr["histories"] + rc["histories"] + rp["histories"]
cov["race_detector_operations"] = rr["operations"] + rc["operations"] + rp["operations"]
cov["race_detector_command_pairs"] = rp["histories"]
cov["race_reports"] = sum(x["count"] for src in (rr, rc, rp) for x in src["races"])
for src in (r, churn, rr, rc, rp):
    for a in src["anomalies"]:
        if a["kind"] == "deadlock" and src is churn:
            # deadlocks belong to C13; here only when a panic wedged the others
            continue
        v.report({"branch": "conc." + a["profile"], "kind": a["kind"], "detail": a["detail"].split(":")[0][:60] if a["kind"] == "panic" else ""}, a,
                 what="history %d (%s): %s" % (a["h"], a["profile"], a["detail"][:400]))
    for dth in src["deaths"]:
        v.report({"branch": "conc.process", "kind": "process-death", "detail": dth["first_line"][:80]}, dth,
                 what="the process died during history %d: %s" % (dth["history"], dth["first_line"]))
with concurrent.futures.ThreadPoolExecutor(max_workers=8) as ex:
    for path, (nonlin, states) in zip(r["hist_files"], ex.map(conc.validate_hist, r["hist_files"])):
        cov["states"] += states
        cov["transitions"] += states
        for n in nonlin:
            hist = conc.history_of(path, n["h"])
            name = ks.b2s(n["argv"][0]).lower()
            v.report({"branch": "lin." + name, "kind": "non-linearizable", "detail": ""}, {"history": hist, "failing_response": n},
                     what="history %d is not linearizable: no sequential order explains the reply %s of %s\n  %s" % (
                         n["h"], ks.show_reply(n["got"]), ks.show_argv(n["argv"]), "\n  ".join(hist[:40])))
        if not cov["samples"]:
            import json as _j
            first = _j.loads(open(path).readline())
            cov["samples"].append({"kind": "concurrent history (events in real-time order)", "events": conc.history_of(path, first["h"])[:24]})
cov["traces_validated_against_impl"] = r["histories"]
# B1 for schedules: TLC enumerates every interleaving with <= 2 preemptions (pairs) / <= 1 (triples) of the commands'
# observed synchronisation programmes (spec/Sched.tla); each is realised on the real code with one goroutine running at
# a time and the resulting history decided by TraceLin
sr = sched.run("single", tier, seed, maxpre=2 if tier == "quick" else 3, maxpre3=1 if tier == "quick" else 2)
sched.decide(sr, v, "C05", cov)
v.finish(tier, "model_checking", cov, ["sequential meaning = spec/Keyspace.tla; atomic multi-key commands (MSET, RENAME, LMOVE, SMOVE) are single operations; KEYS and multi-key reads are only checked at quiescence",
                                       "tickets are taken before the call and after the return, so recorded real-time order under-approximates the real one (the check can only be more permissive)",
                                       "random histories: schedules are those the Go scheduler produces under seeded yields at lock requests; the shared-counter race is searched statistically (churn workload)",
                                       "deterministic schedules: preemption points are the stripe-lock requests and keyspace-map accesses (hooks H1/H2); code between two such points runs without interruption, so races inside one value object (list nodes, stream entries) that involve no map access are only reached by the random histories; true data races (unsynchronised memory access) need real parallelism and are also left to the random histories",
                                       "histories are short by design (<= 6 clients x 6 commands) so that TLC decides each exactly"])
