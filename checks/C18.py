#!/usr/bin/env python3
"""C18 streams: B1 tours of MC_Stream + B2 random stream programmes (TraceKs.tla)."""
import common, ks
tier = common.tier_arg()
LABELS = ('xadd', 'xrange')
ks.family_check(
    "C18", tier,
    b1_instances=[('MC_Stream', 'MC_Stream.cfg')] if tier == "quick" else [('MC_Stream', 'MC_Stream_thorough.cfg')],
    b2_families=['stream'],
    level_text="", assumptions=['reference semantics = Redis command reference as transcribed in spec/KsStream.tla', 'auto IDs (*) are checked relationally in B2 (greater than the last ID), explicit and ms-* IDs exactly', "'~' trimming may keep any suffix between the exact trim and no trim"],
    b2_progs=400 if tier == "quick" else 6000,
    label_filter=lambda b: b.split(".")[0] in LABELS)
