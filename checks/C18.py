#!/usr/bin/env python3
"""C18 streams: B1 tours of MC_Stream + B2 random stream programmes (TraceKs.tla)."""
import common, ks, sched
tier = common.tier_arg()


def concurrent_adds(v, cov, tier, seed):
    """IDs stay strictly increasing and nothing added is lost when XADDs (explicit ids, MAXLEN, NOMKSTREAM), DEL and XRANGE
    on one stream interleave: every schedule with <= 2 preemptions (spec/Sched.tla) replayed on the real code."""
    sr = sched.run("stream", "thorough", seed, maxpre=2 if tier == "quick" else 3, maxpre3=1 if tier == "quick" else 2)
    sched.decide(sr, v, "C18", cov)


LABELS = ('xadd', 'xrange')
ks.family_check(
    "C18", tier,
    b1_instances=[('MC_Stream', 'MC_Stream.cfg')] if tier == "quick" else [('MC_Stream', 'MC_Stream_thorough.cfg')],
    b2_families=['stream', 'streamdeep'],
    level_text="", assumptions=['reference semantics = Redis command reference as transcribed in spec/KsStream.tla', 'auto IDs (*) are checked relationally in B2 (greater than the last ID), explicit and ms-* IDs exactly', "'~' trimming may keep any suffix between the exact trim and no trim"],
    b2_progs=400 if tier == "quick" else 6000, extra=concurrent_adds,
    label_filter=lambda b: b.split(".")[0] in LABELS)
