#!/usr/bin/env python3
"""C09 lists: B1 tours of MC_List + B2 random list programmes (TraceKs.tla)."""
import common, ks
tier = common.tier_arg()
LIST_LABELS = ("lpush", "rpush", "lpop", "rpop", "llen", "lindex", "lrange", "lset", "lrem", "ltrim", "lpos", "lmove", "blpop", "brpop")
ks.family_check(
    "C09", tier,
    b1_instances=[("MC_List", "MC_List.cfg" if tier == "quick" else "MC_List_thorough.cfg")],
    b2_families=["list"],
    level_text="", assumptions=[
        "reference semantics = Redis command reference as transcribed in spec/KsList.tla",
        "B1 exhaustive within the instance bounds (2 lists, elements {a,b}, length <= 3/4); B2 sampled",
        "blocking pops (BLPOP/BRPOP) are checked on the real clock by check C09's blocking scenarios (harness/cmd/blockpop)"],
    b2_progs=400 if tier == "quick" else 6000,
    label_filter=lambda b: b.split(".")[0] in LIST_LABELS)
