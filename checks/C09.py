#!/usr/bin/env python3
"""C09 lists: B1 tours of MC_List + B2 random list programmes (TraceKs.tla)."""
import json, os, subprocess
import common, ks, conc, sched
tier = common.tier_arg()


def blocking(v, cov, tier, seed):
    """Blocking pops on the real clock (harness/cmd/blockpop): promptness bounds are checked by the driver, exactly-once /
    order / nothing-left by TLC on the recorded histories (TraceLin.tla with CmdBPop of KsList.tla)."""
    tool = ks.build_tool("blockpop")
    d = common.scratch("bp-")
    path = os.path.join(d, "bp.ndjson")
    p = subprocess.run([tool, "-seed", str(seed), "-rounds", "2" if tier == "quick" else "12", "-out", path], stdout=subprocess.PIPE, stderr=subprocess.PIPE, text=True, timeout=600)
    if p.returncode != 0:
        common.die_infra("blockpop failed: " + p.stderr[-1500:])
    summ = None
    for line in p.stdout.splitlines():
        if line.startswith("SUMMARY "):
            summ = json.loads(line[8:])
        elif line.startswith("{"):
            a = json.loads(line)
            v.report({"branch": "blocking." + a["scenario"], "kind": a["kind"], "detail": ""}, a, what="blocking pop scenario %s: %s" % (a["scenario"], a["detail"]))
    nonlin, states = conc.validate_hist(path)
    for n in nonlin:
        hist = conc.history_of(path, n["h"])
        v.report({"branch": "blocking.lin", "kind": "non-linearizable", "detail": ""}, {"history": hist, "failing_response": n},
                 what="blocking-pop history %d is not linearizable (element lost, duplicated or delivered out of order)\n  %s" % (n["h"], "\n  ".join(hist)))
    cov["blocking_pop"] = dict(summ, histories_checked_by_tlc=summ["scenarios"], tlc_states=states)
    cov["traces_validated_against_impl"] += summ["scenarios"]

LIST_LABELS = ("lpush", "rpush", "lpop", "rpop", "llen", "lindex", "lrange", "lset", "lrem", "ltrim", "lpos", "lmove", "blpop", "brpop")
ks.family_check(
    "C09", tier,
    b1_instances=[("MC_List", "MC_List.cfg" if tier == "quick" else "MC_List_thorough.cfg")],
    b2_families=["list", "listdeep"],
    level_text="", assumptions=[
        "reference semantics = Redis command reference as transcribed in spec/KsList.tla",
        "B1 exhaustive within the instance bounds (2 lists, elements {a,b}, length <= 3/4); B2 sampled",
        "blocking pops (BLPOP/BRPOP) are checked on the real clock by check C09's blocking scenarios (harness/cmd/blockpop)"],
    b2_progs=400 if tier == "quick" else 6000,
    label_filter=lambda b: b.split(".")[0] in LIST_LABELS, extra=lambda v, cov, tier, seed: (blocking(v, cov, tier, seed), sched.family_extra("C09", "list")(v, cov, tier, seed)))
