#!/usr/bin/env python3
"""C03 one well-formed reply per command, in order, payloads intact.
B1: the transition tables of every keyspace MC instance are replayed AT THE WIRE LEVEL: setup + path + command are
written as ONE pipelined batch into the real Manager.Handle (net.Pipe), the reply stream is split by the independent
RESP decoder; payload arguments are sent with CR LF inside ("b" -> "b\\r\\n") so simple-string framing of stored bytes
cannot survive. B2: random programmes of every family pipelined in random batch sizes and random write chunks through
Manager.Handle and over TCP to the real binary, each command followed by PING <nonce> (the echo pins count and order),
the recorded reply stream validated by TraceKs.tla.
Only the clauses of C03 are verdict-bearing here: reply count/decodability (short, extra, malformed), alignment
(misaligned nonce), a Go nil result written as '-unknown error'. Content mismatches belong to the family properties."""
import concurrent.futures, json, os, subprocess
import common, ks, server

tier = common.tier_arg()
v = common.Verdict("C03")
seed = common.seed()
sample = 2 if tier == "quick" else 0
INST = [("MC_String", "MC_String.cfg", False), ("MC_List", "MC_List.cfg", True), ("MC_Hash", "MC_Hash.cfg", True), ("MC_Set", "MC_Set.cfg", True),
        ("MC_Zset", "MC_Zset.cfg", True), ("MC_Stream", "MC_Stream.cfg", True)]
cov = {"states": 0, "transitions": 0, "traces_validated_against_impl": 0, "samples": [], "b1_wire": {}, "b2_wire": {},
       "content_mismatches_left_to_owner": 0, "pipelined_batches": 0, "pipelined_commands": 0}


def wire_verdict(kind):
    return kind in ("wire",)


def b1(job):
    module, cfg, sub = job
    args = ["-wire", "-sample", str(sample)] + (["-subst"] if sub else [])
    return job, ks.run_b1(module, cfg, workers=4, tour_args=args)


with concurrent.futures.ThreadPoolExecutor(max_workers=4) as ex:
    for (module, cfg, sub), r in ex.map(b1, INST):
        s = r["summary"]
        cov["states"] += r["tlc"]["distinct"]
        cov["transitions"] += r["tlc"]["generated"]
        cov["pipelined_batches"] += s["wire_batches"]
        cov["pipelined_commands"] += s["wire_commands"]
        cov["b1_wire"][cfg] = {"edges_tested": s["edges_tested"], "labels_passed": s["labels_passed"], "labels_total": s["labels_total"],
                               "batches": s["wire_batches"], "crlf_payload_substitution": sub}
        for f in r["failures"]:
            if f["kind"] == "wire":
                v.report({"branch": f["branch"], "kind": "wire-" + f["detail"], "detail": ""},
                         {"instance": cfg, "path": f.get("path"), "cmd": f["cmd"], "problem": f.get("state_diff")},
                         what="%s: pipelined %s + %s: %s" % (cfg, f.get("path"), f["cmd"], f.get("state_diff")))
            elif f["kind"] == "reply" and f["got"].get("nilres"):
                v.report({"branch": f["branch"], "kind": "nil-result", "detail": ""}, f, what="%s -> Go nil result written as -unknown error" % f["cmd"])
            elif f["kind"] == "reply" and f["got"].get("k") == "malformed":
                v.report({"branch": f["branch"], "kind": "malformed-reply", "detail": ""}, f, what="%s -> reply is not one well-formed RESP value" % f["cmd"])
            else:
                cov["content_mismatches_left_to_owner"] += 1

# ---- B2 ----
gen = ks.build_tool("ksgen")
fams = ["string", "keys", "list", "hash", "set", "zset", "stream"]
progs = 60 if tier == "quick" else 600
d = common.scratch("c03-")
srv = server.Server()
jobs = []
try:
    for fam in fams:
        for mode in ("pipe", "tcp"):
            path = os.path.join(d, "%s-%s.ndjson" % (fam, mode))
            cmd = [gen, "-family", fam, "-seed", str(seed * 100 + len(jobs)), "-progs", str(progs), "-steps", "30", "-out", path, "-mode", mode,
                   "-pbase", str(len(jobs) * progs)]
            if mode == "tcp":
                cmd += ["-addr", "127.0.0.1:%d" % srv.port]
            p = subprocess.run(cmd, stdout=subprocess.PIPE, stderr=subprocess.STDOUT, text=True, timeout=900)
            if p.returncode != 0:
                common.die_infra("ksgen failed: %s\n%s" % (" ".join(cmd), p.stdout[-2000:]))
            if mode == "tcp" and not srv.alive():
                v.report({"branch": "server", "kind": "process-death", "detail": fam}, {"family": fam, "log": srv.tail(1500)},
                         what="the server process died while serving pipelined %s programmes" % fam)
                srv = server.Server()
            jobs.append((fam, mode, path))
finally:
    srv.stop()
with concurrent.futures.ThreadPoolExecutor(max_workers=8) as ex:
    for (fam, mode, path), r in zip(jobs, ex.map(lambda j: ks.validate_trace(j[2]), jobs)):
        cov["traces_validated_against_impl"] += progs
        cov["b2_wire"]["%s/%s" % (fam, mode)] = {"programmes": progs, "events": r["events"], "mismatching_programmes": len(r["mismatches"])}
        for m in r["mismatches"]:
            got = m["got"]
            if got["k"].startswith("wire-"):
                v.report({"branch": m["exp"][0]["b"] if m["exp"] else "?", "kind": got["k"], "detail": ""}, ks.replay_of(m, path),
                         what="%s mode, %s: %s\n%s" % (mode, got["k"], got.get("e"), ks.explain(m, path)))
            elif got.get("nilres"):
                v.report({"branch": m["exp"][0]["b"], "kind": "nil-result", "detail": ""}, ks.replay_of(m, path), what=ks.explain(m, path))
            else:
                cov["content_mismatches_left_to_owner"] += 1
        if len(cov["samples"]) < 2:
            tr = ks.load_trace(path)
            cov["samples"].append({"kind": "B2 %s programme via %s (each command followed by PING <nonce>)" % (fam, mode),
                                   "commands": ["%s -> %s" % (ks.show_argv(e["argv"]), ks.show_reply(e["reply"])) for e in tr if e["ev"] != "reset"][:10]})
# ---- the adversarial input space of spec/Robust.tla (every command name x token vectors, every single-point mutation of the
# valid commands): each reply, rendered by the implementation's own ToBytes, must decode as exactly ONE well-formed value
# (an error line that carries client bytes must not contain CR or LF, nested or bare)
import robustlib
r_anoms, r_summary, r_restarts, r_maxargs = robustlib.run(tier)
seen_sites = set()
for a in r_anoms:
    if a["kind"] == "malformed-reply" and (a["site"], len(a["argv"] or [])) not in seen_sites:
        seen_sites.add((a["site"], len(a["argv"] or [])))
        v.report({"branch": "input." + a["site"], "kind": "malformed-reply", "detail": ""}, a,
                 what="%s -> the reply is not exactly one well-formed RESP value: %s" % (" ".join(repr(x) for x in a["argv"]), a["detail"][:300]))
# ---- cluster mode, one client per node in lock step: every connection gets the reply to ITS command (started here, collected
# at the end; the same scenario serves C14)
import clusterscen
_cl_ex = concurrent.futures.ThreadPoolExecutor(max_workers=1)
_cl_job = _cl_ex.submit(clusterscen.pinned_lockstep, 30 if tier == "quick" else 200)
# ---- concurrent connections (lib/wireconc.py): each connection's reply stream is its own, also while the server is blocked
# in the middle of writing a multi-megabyte reply to a reader that does not read
import wireconc
wc_stats = []
for rnd_i in range(1 if tier == "quick" else 4):
    probs, wst = wireconc.run(seed=seed * 10 + rnd_i)
    wc_stats.append(wst)
    for pr in probs:
        v.report({"branch": "concurrent-connections", "kind": pr["kind"], "detail": pr["cmd"].split()[0].lower()}, pr,
                 what="concurrent connections, %s, %s: %s" % (pr["conn"], pr["cmd"], pr["detail"]))
    sp_probs, sp_stats = wireconc.subscribed_pipeline(seed=seed * 10 + rnd_i, batches=40 if tier == "quick" else 200)
    wc_stats.append(sp_stats)
    for pr in sp_probs:
        v.report({"branch": "subscribed-pipeline", "kind": pr["kind"], "detail": ""}, pr,
                 what="a subscribed connection pipelining ordinary commands while others publish: %s" % pr["detail"])
si_probs, si_stats = wireconc.subscriber_idle_reply((2.6,) if tier == "quick" else (2.6, 5.5, 11.0, 31.0, 61.0))
wc_stats.append(si_stats)
for pr in si_probs:
    v.report({"branch": "subscriber-idle", "kind": pr["kind"], "detail": ""}, pr, what=pr["detail"])
lprobs, lstats = _cl_job.result()
cov["cluster_one_client_per_node_lockstep"] = lstats
for pr in lprobs or []:
    v.report({"branch": "cluster.own-reply", "kind": pr["kind"], "detail": ""}, pr,
             what="cluster mode, one client per node in lock step: %s" % pr["detail"])
cov["concurrent_connections"] = wc_stats
cov["adversarial_inputs"] = r_summary["executed"]
cov["traces_validated_against_impl"] += 0
cov["samples"].append({"kind": "B1 wire batch", "example": "RPUSH l1 a 'b\\r\\n' | LRANGE l1 0 -1 written as one batch; the reply stream must decode to exactly 2 replies"})
v.finish(tier, "model_checking", cov, ["reply framing is judged by the independent decoder harness/respcodec (written from the protocol description)",
                                       "content of replies is judged by the family properties (C01, C09-C12, C18); C03 reports only count / decodability / alignment / nil results",
                                       "Pub/Sub pushes are not part of these programmes (C19)"])
