#!/usr/bin/env python3
"""C15 - etcd Raft core safety (election safety, log matching, state-machine safety, committed entries never
rewritten, leader completeness, HardState monotonicity).

Technique (DESIGN.md C15): explicit TLA+ specification spec/EtcdRaft.tla (plain and two-phase PreVote elections:
CONSTANT PreVote; simple membership changes - one voter added or removed at a time, applied when committed, every
node counting quorums over its own configuration: CONSTANT ConfChange) checked by TLC, bound to the real
raft.RawNode code by
  B1  TLC-generated behaviours (-simulate of MC_Raft3_sim*.cfg, PreVote = FALSE and TRUE, ConfChange = FALSE and
      TRUE) replayed in lockstep on real RawNodes (raft.Config.PreVote accordingly; ProposeConfChange /
      ApplyConfChange for the conf changes) by raftsim; every projected state (with ConfChange: also every node's
      voter set and the ids of the leader's Progress map) and the bag of in-flight messages must agree with the spec;
  B3  attack schedules: TLC counterexamples of the spec with ONE rule weakened (MC_RaftAtk_*.cfg), replayed on
      the real RawNodes - correct code refuses the weakened step, code with that rule broken follows it;
  B2  seeded random runs of 3 real RawNodes inside the spec's scope (with and without PreVote, with and without
      simple membership changes), validated line by
      line against EtcdRaft.tla by spec/TraceEtcdRaft.tla (every event must be the spec's action, every projection
      and the message bag equal);
  B1w spec/ReadyWindow.tla (one follower's log pipeline: unstable over storage, Ready, the application's save and
      Advance as separate steps, appends/heartbeats of successive leaders arriving in between): EVERY transition of
      its state graph replayed on a real RawNode by `raftsim window` (lib/readywin.py); decided on the node's outputs;
  plus seeded random schedules far outside the model (crash/restart, partitions, drop/dup, conf changes v1/v2/
      joint/learners, compaction and snapshots, PreVote with CheckQuorum, one-entry appends) on 3-5 real RawNodes.
THE VERDICT comes only from spec/RaftObs.tla: TLC evaluates the C15 clauses on the projection of every real node
after every event of every real run above.  exit 1 <=> RaftObs reports a MISMATCH on a real trace.
"""
import concurrent.futures as cf
import hashlib, json, os, re, shutil, subprocess, sys, time

import common
import readywin

PROP = "C15"
TIER = common.tier_arg()
SEED = common.seed()
QUICK = TIER == "quick"
T0 = time.time()

RAFTSIM_SRC = os.path.join(common.ROOT, "raftsim")
ATTACK_FILE = os.path.join(common.SPEC, "EtcdRaft_attacks.json")
FLAGS_CHEAP = ["VoteIgnoreVoted", "NoPersistVote", "VoteIgnoreLog", "QuorumMinusOne", "PreVoteResp"]
# the two membership-change rules (about 100 k / 200 k states, 25 s with 4 workers each): regenerated in the thorough tier, the
# stored schedules are replayed in both tiers
FLAGS_CONF = ["ConfNoPending", "AddedVoterCaughtUp"]
# CommitAnyTerm is regenerated only with C15_REGEN_ALL=1 (1.7 M states, 2-10 min depending on load); the stored
# schedule in spec/EtcdRaft_attacks.json is always replayed
# KeepMatch (five nodes, 31 steps) is a SCRIPTED search: MC_Raft3.tla KeepMatchScript gives the outline, TLC checks that it is a
# behaviour of the weakened specification ending in a safety violation and fills in every message (24 M states, 7 min with 8
# workers because of the message-loss subsets): regenerated only with C15_REGEN_ALL=1, the stored schedule is always replayed
FLAGS_ALL = FLAGS_CHEAP + FLAGS_CONF + ["HeartbeatCommit", "AppendTruncates"] + (["CommitAnyTerm", "KeepMatch"] if os.environ.get("C15_REGEN_ALL") else [])
ATTACK_OPT = {"CommitAnyTerm": {"maxents": 1}, "PreVoteResp": {"prevote": True}, "KeepMatch": {"nodes": 5, "voters": [1, 2, 3, 4, 5]},
              "ConfNoPending": {"voters": [1, 2, 3]}, "AddedVoterCaughtUp": {"voters": [1, 2]}}
# -simulate instances with ConfChange = TRUE: (cfg, maxents, prevote, genesis voters, depth = SimDepth of the cfg)
SIM_CONF = [("MC_Raft3_sim_conf.cfg", 0, False, [1, 2], 40), ("MC_Raft3_sim_conf3.cfg", 1, False, [1, 2, 3], 45)]


def log(msg):
    print("[C15 %6.1fs] %s" % (time.time() - T0, msg), flush=True)


# ------------------------------------------------------------------------------------------- build

def build_raftsim(work):
    """Copy the raftsim module to scratch, point its replaces at common.REPO (honours VERIF_REPO), build."""
    src = os.path.join(work, "raftsim")
    shutil.copytree(RAFTSIM_SRC, src, ignore=shutil.ignore_patterns("go.sum"))
    gm = open(os.path.join(src, "go.mod")).read()
    gm = gm.replace("/repo/etcd/", common.REPO.rstrip("/") + "/etcd/")
    open(os.path.join(src, "go.mod"), "w").write(gm)
    out = os.path.join(work, "raftsim.bin")
    common.go_build(src, ".", out, tags="")
    return out


# ------------------------------------------------------------------------------------------- TLC pieces

def unquote(line):
    return json.loads(line)


def tlc_model_check(cfg, workers, timeout):
    r = common.run_tlc("MC_Raft3", cfg=cfg, workers=workers, heap="8g", timeout=timeout)
    return r


REQUIRED_ACTIONS = ["Campaign", "Propose", "Heartbeat", "Crash.keep", "Restart", "Drop", "Dup",
                    "Deliver.Vote", "Deliver.VoteResp", "Deliver.App", "Deliver.AppResp",
                    "Deliver.HB", "Deliver.HBResp", "Deliver.stale", "BecomeLeader", "CommitAdvance",
                    # PreVote = TRUE behaviours: both phases, won and lost pre-votes, the stale-leader reply, a (pre-)vote
                    # response of the other phase reaching a candidate / pre-candidate (the per-state filter of stepCandidate)
                    "Deliver.PreVote", "Deliver.PreVoteResp", "Deliver.PreVoteResp.reject", "BecomePreCandidate", "PreVoteWon",
                    "Deliver.PreVoteResp.to-candidate",
                    # ConfChange = TRUE behaviours: accepted and refused proposals, a configuration switched on a leader and on a follower
                    "ProposeConfChange", "ProposeConfChange.refused", "ConfSwitch.leader", "ConfSwitch.follower"]
# reported, not required in every run (rare branches; a guard that demands a branch taken 10-30 times per run fails with some
# seed - seed 2 of the soak had no Deliver.stale.App+HB.prevote): Deliver.stale.App+HB.prevote, Deliver.stale.PreVote, Crash.lose, Deliver.VoteResp.reject, Deliver.AppResp.reject,
# PreVoteLost (about 10 of 600 PreVote behaviours), Deliver.VoteResp.to-precandidate, SingleVoterElected, Restart.reapplies-conf,
# LeaderOutsideItsConfig (a leader that removed itself), Deliver.unknown-peer (a response from a node that is not in the receiver's configuration),
# ConfChange.without-effect-or-rejected (a voter added twice, a stranger removed, the last voter removed)


def action_histogram(behaviours):
    """Which spec actions (by branch) the TLC-generated, lockstep-replayed behaviours exercised (DESIGN 4.3)."""
    h = {}

    def inc(k):
        h[k] = h.get(k, 0) + 1

    for b in behaviours:
        if not b.get("lockstep"):
            continue
        prev = None
        for st in b["steps"]:
            a, s = st["a"], st.get("s")
            n = a["name"]
            if n == "Crash":
                inc("Crash.keep" if a.get("keep") else "Crash.lose")
            elif n == "Deliver":
                m = a["m"]
                to = prev["n"][m["to"] - 1] if prev is not None else None
                stale = to is not None and m["tm"] < to["term"]
                if stale:
                    inc("Deliver.stale")
                    if b["opt"].get("prevote") and to["up"]:
                        if m["ty"] in ("App", "HB"):
                            inc("Deliver.stale.App+HB.prevote")
                        elif m["ty"] == "PreVote":
                            inc("Deliver.stale.PreVote")
                else:
                    inc("Deliver." + m["ty"])
                    if (to is not None and to["up"] and to.get("cfg") is not None and m["fr"] not in to["cfg"]
                            and m["ty"] in ("VoteResp", "PreVoteResp", "AppResp", "HBResp")):
                        inc("Deliver.unknown-peer")
                    if m["rj"]:
                        inc("Deliver.%s.reject" % m["ty"])
                    if to is not None and to["up"]:
                        if m["ty"] == "PreVoteResp" and to["role"] == "C":
                            inc("Deliver.PreVoteResp.to-candidate")
                        if m["ty"] == "VoteResp" and to["role"] == "P":
                            inc("Deliver.VoteResp.to-precandidate")
            else:
                inc(n)
            if n == "ProposeConfChange" and s is not None:
                e = s["n"][a["i"] - 1]["log"][-1]
                if e["c"] == 0:
                    inc("ProposeConfChange.refused")
            if n == "Restart" and s is not None:
                y = s["n"][a["i"] - 1]
                if any(e.get("c") for e in y["log"][:y["commit"]]):
                    inc("Restart.reapplies-conf")
            if prev is not None and s is not None:
                for x, y in zip(prev["n"], s["n"]):
                    if y["role"] == "L" and x["role"] != "L":
                        inc("BecomeLeader")
                    if y["role"] == "P" and n == "Campaign" and y is s["n"][a["i"] - 1]:
                        inc("BecomePreCandidate")
                    if x["role"] == "P" and y["role"] == "C":
                        inc("PreVoteWon")
                    if x["role"] == "P" and y["role"] == "F" and n == "Deliver" and a["m"]["ty"] == "PreVoteResp" and y["term"] == x["term"]:
                        inc("PreVoteLost")
                    if y["up"] and x["up"] and y["commit"] > x["commit"]:
                        inc("CommitAdvance")
                        if y.get("cfg") == x.get("cfg") and any(e.get("c") for e in y["log"][x["commit"]:y["commit"]]):
                            inc("ConfChange.without-effect-or-rejected")
                    if y["up"] and x["up"] and y.get("cfg") != x.get("cfg"):
                        inc("ConfSwitch.leader" if y["role"] == "L" else "ConfSwitch.follower")
                        if y["role"] == "L" and (s["n"].index(y) + 1) not in y["cfg"]:
                            inc("LeaderOutsideItsConfig")
                    if y["role"] == "L" and x["role"] != "L" and y.get("cfg") is not None and len(y["cfg"]) == 1:
                        inc("SingleVoterElected")
            prev = s
    return h


def tlc_simulate(cfg, num, depth, seed):  # depth = SimDepth of the cfg: a behaviour is printed when it reaches that many states
    scheds = []

    def cb(line):
        if line.startswith('"SCHEDULE '):
            scheds.append(json.loads(unquote(line)[len("SCHEDULE "):]))
            return True
        return False

    r = common.run_tlc("MC_Raft3", cfg=cfg, workers=1, heap="2g", timeout=600,
                       args=["-simulate", "num=%d" % num, "-depth", str(depth), "-seed", str(seed)], line_cb=cb)
    return r, scheds


def tlc_attack(flag, workers, timeout):
    found = []

    def cb(line):
        if line.startswith('"ATTACK '):
            found.append(json.loads(unquote(line)[len("ATTACK "):]))
            return True
        return False

    r = common.run_tlc("MC_Raft3", cfg="MC_RaftAtk_%s.cfg" % flag, workers=workers, heap="6g", timeout=timeout, line_cb=cb)
    return r, found


def expand_lost(steps):
    """LossySend instances record messages lost at send time in act.lost: make them explicit Drop steps."""
    out = []
    for st in steps:
        a = dict(st["a"])
        lost = a.pop("lost", None) or []
        out.append({"a": a})
        for m in lost:
            out.append({"a": {"name": "Drop", "m": m}})
    return out


def run_monitor(trace_path):
    """RaftObs over one ndjson trace. Returns (ok_infra, mismatches[list of dict], lines, wall)."""
    mism = []
    done = {}

    def cb(line):
        if line.startswith('"MISMATCH '):
            mism.append(json.loads(unquote(line)[len("MISMATCH "):]))
            return True
        if line.startswith('"MONITOR-DONE '):
            done.update(json.loads(unquote(line)[len("MONITOR-DONE "):]))
            return True
        return False

    r = common.run_tlc("RaftObs", workers=1, heap="3g", extra_env={"TRACE": trace_path}, timeout=900, line_cb=cb)
    ok = (r.rc == 0 and not r.timed_out and done.get("consumed") == done.get("lines") and done.get("lines") is not None)
    return ok, mism, done.get("lines", 0), r


def run_trace_validation(trace_path, cfg):
    """B2: TraceEtcdRaft over one spec-scope trace. Returns (infra_ok, lines, matched, TLCResult)."""
    done = {}

    def cb(line):
        if line.startswith('"TRACE-VALIDATION '):
            done.update(json.loads(unquote(line)[len("TRACE-VALIDATION "):]))
            return True
        return False

    r = common.run_tlc("TraceEtcdRaft", cfg=cfg, workers=1, heap="3g", extra_env={"TRACE": trace_path}, timeout=900, line_cb=cb)
    ok = (not r.timed_out) and done.get("lines") is not None and r.rc in (0, 10, 12)
    return ok, done.get("lines", 0), done.get("matched", 0), r


# ------------------------------------------------------------------------------------------- traces

def split_trace(path, outdir, prefix, target=5000):
    """Split an ndjson trace into parts of about `target` lines, cutting only in front of reset lines."""
    parts, cur, n = [], None, 0
    with open(path) as f:
        for line in f:
            if cur is None or (n >= target and line.startswith('{"l":') and '"ev":"reset"' in line[:40]):
                if cur:
                    cur.close()
                p = os.path.join(outdir, "%s-%03d.ndjson" % (prefix, len(parts)))
                parts.append(p)
                cur = open(p, "w")
                n = 0
            cur.write(line)
            n += 1
    if cur:
        cur.close()
    return parts


def extract_run(path, lineno):
    """(lines of the run containing 1-based file line `lineno`, file line number of the run's first line)."""
    run, start = [], 1
    with open(path) as f:
        for k, line in enumerate(f, 1):
            if '"ev":"reset"' in line[:40]:
                if k > lineno:
                    break
                run, start = [], k
            run.append(line)
    return run, start


def save_violation(verdict, src_kind, src_name, path, mm):
    run, start = extract_run(path, mm["line"])
    fail_idx = mm["line"] - start            # index of the failing event inside the run (0 = reset line)
    run = run[:fail_idx + 3]                 # keep two lines of context after the failing one
    d = os.path.join(common.OUT, "replay", PROP)
    os.makedirs(d, exist_ok=True)
    tpath = os.path.join(d, "trace-%s-%s.ndjson" % (mm["inv"], src_kind))
    open(tpath, "w").write("".join(run))
    events, opt = [], None
    for line in run:
        try:
            e = json.loads(line)
        except Exception:
            continue
        events.append(e.get("arg", {}))
        if opt is None:
            opt = e.get("opt")
    sig = {"branch": "raft.monitor." + mm["inv"], "kind": "invariant-on-real-trace", "detail": src_kind}
    what = "RaftObs clause %s failed at event #%d (%s node %s) of a real RawNode run [%s %s]; witness %s; trace %s" % (
        mm["inv"], fail_idx, mm.get("ev"), mm.get("node"), src_kind, src_name, json.dumps(mm.get("witness")), tpath)
    verdict.report(sig, {"trace": tpath, "options": opt, "failing_event_index": fail_idx, "events": events,
                         "how": "raftsim replays `events` (raftsim replay / the same random seed) on real raft.RawNodes; "
                                "TRACE=<trace> tlc RaftObs.tla re-evaluates the clause"}, what)


SAFETY_PANIC = re.compile(r"conflict with committed entry|is out of range|out of bound|invalid transition|missing log entry|"
                          r"corrupted, truncated, or lost")


def report_panics(verdict, kind, path, panics):
    """A panic raised by one of the library's own log-safety assertions during a legal schedule is a real execution
    in which a committed / acknowledged entry was about to be (or had been) lost or overwritten. Other panics are
    returned as unclassified."""
    other = []
    for ptxt in panics or []:
        m = re.match(r"line (\d+) node (\d+): (.*)", ptxt, re.S)
        if not m or not SAFETY_PANIC.search(m.group(3)):
            other.append(ptxt)
            continue
        lineno, node, msg = int(m.group(1)), int(m.group(2)), m.group(3)
        norm = re.sub(r"[0-9a-f]*\d[0-9a-f]*", "N", msg)[:80]
        run, start = extract_run(path, lineno)
        run = run[:lineno - start + 1]
        d = os.path.join(common.OUT, "replay", PROP)
        os.makedirs(d, exist_ok=True)
        tpath = os.path.join(d, "trace-panic-%s-%s.ndjson" % (kind, hashlib.md5(norm.encode()).hexdigest()[:8]))
        if not os.path.exists(tpath) or True:
            open(tpath, "w").write("".join(run))
        events = []
        for line in run:
            try:
                events.append(json.loads(line).get("arg", {}))
            except Exception:
                pass
        sig = {"branch": "raft.panic", "kind": "safety-assertion-panic", "detail": norm}
        verdict.report(sig, {"trace": tpath, "failing_event_index": lineno - start, "events": events},
                       "library safety assertion fired on node %d at event #%d of a real RawNode run (%s): %s; trace %s" % (
                           node, lineno - start, kind, msg[:200], tpath))
    return other


# ------------------------------------------------------------------------------------------- vacuity guard

def corruption_selftest(sample_trace, work):
    """DESIGN 4.2: the monitor must reject corrupted copies of an accepted real trace."""
    lines = []
    with open(sample_trace) as f:
        for line in f:
            lines.append(json.loads(line))
            if len(lines) > 1 and lines[-1]["ev"] == "reset":
                lines.pop()
                break
    import copy
    want = {}
    # 1. a second leader in the same term
    a = copy.deepcopy(lines)
    for x in a:
        L = [n for n in x["n"] if n["role"] == "L"]
        O = [n for n in x["n"] if n["role"] not in ("L", "D")]
        if L and O:
            O[0]["role"] = "L"
            O[0]["term"] = L[0]["term"]
            O[0]["hs"]["term"] = L[0]["term"]
            want["ElectionSafety"] = a
            break
    # 2. a committed entry rewritten
    a = copy.deepcopy(lines)
    for x in a[len(a) // 2:]:
        c = [n for n in x["n"] if n["log"] and n["log"][0]["i"] <= n["commit"]]
        if c:
            c[0]["log"][0]["p"] = 987654
            want["CommittedNeverRewritten"] = a
            break
    # 3. persisted term regresses (on a step that leaves this node's term unchanged in the real trace)
    a = copy.deepcopy(lines)
    done = False
    for k in range(max(1, len(a) // 2), len(a)):
        if a[k]["ev"] == "reset" or len(a[k]["n"]) != len(a[k - 1]["n"]):
            continue
        for j, n in enumerate(a[k]["n"]):
            p = a[k - 1]["n"][j]
            if n["up"] and p["up"] and n["hs"]["term"] > 0 and n["hs"]["term"] == p["hs"]["term"]:
                n["hs"]["term"] -= 1
                n["term"] -= 1
                want["HardStateMonotonic"] = a
                done = True
                break
        if done:
            break
    res = {}
    for inv, tr in want.items():
        p = os.path.join(work, "corrupt-%s.ndjson" % inv)
        with open(p, "w") as f:
            for x in tr:
                f.write(json.dumps(x, separators=(",", ":")) + "\n")
        ok, mism, n, r = run_monitor(p)
        res[inv] = ok and any(m["inv"] == inv for m in mism)
    return res


# ------------------------------------------------------------------------------------------- main

def main():
    work = common.scratch("c15-")
    verdict = common.Verdict(PROP)
    ncpu = os.cpu_count() or 8
    log("tier=%s seed=%d repo=%s" % (TIER, SEED, common.REPO))
    sim_bin = build_raftsim(work)
    log("raftsim built")

    pool = cf.ThreadPoolExecutor(max_workers=max(4, ncpu - 2))

    # ---- 0. the Ready/Advance window (ReadyWindow.tla, B1 on one real RawNode) in the background
    window_collect = readywin.run(sim_bin, work, TIER, SEED, pool)

    # ---- 1. model sanity (exhaustive) in the background
    mc_workers = 5 if QUICK else 8
    mc_pv_workers = 3 if QUICK else 8
    MC_CFG = "MC_Raft3.cfg" if QUICK else "MC_Raft3_full.cfg"
    f_mc = pool.submit(tlc_model_check, MC_CFG, mc_workers, 600 if QUICK else 1100)
    f_faults = None
    if not QUICK:
        f_faults = pool.submit(tlc_model_check, "MC_Raft3_faults.cfg", 4, 1100)
    # the same instances with PreVote = TRUE (two-phase election, role P, MsgPreVote / MsgPreVoteResp)
    MC_PV_CFG = "MC_Raft3_prevote.cfg" if QUICK else "MC_Raft3_prevote_full.cfg"
    f_mc_pv = pool.submit(tlc_model_check, MC_PV_CFG, mc_pv_workers, 600 if QUICK else 3000)
    f_faults_pv = None
    if not QUICK:
        f_faults_pv = pool.submit(tlc_model_check, "MC_Raft3_prevote_faults.cfg", 4, 2000)

    # ConfChange = TRUE (simple membership changes), voters {1,2} + outsider 3, changes add 3 / remove 1 / remove 2.
    # quick: two accepted changes in a row (MC_Raft3_conf.cfg) and one accepted + one refused (MC_Raft3_conf_refuse.cfg), Campaign()
    # of 1 and 3; thorough: two accepted + one refused with every node campaigning (MC_Raft3_conf_full.cfg) and three voters of
    # which 2 and 3 are removed (MC_Raft3_conf_full3.cfg)
    MC_CC_CFG, MC_CC_CFG2 = ("MC_Raft3_conf.cfg", "MC_Raft3_conf_refuse.cfg") if QUICK else ("MC_Raft3_conf_full.cfg", "MC_Raft3_conf_full3.cfg")
    f_mc_cc = pool.submit(tlc_model_check, MC_CC_CFG, 3 if QUICK else 4, 600 if QUICK else 5000)
    f_mc_cc2 = pool.submit(tlc_model_check, MC_CC_CFG2, 2 if QUICK else 4, 600 if QUICK else 5000)

    # ---- 2. TLC-generated behaviours
    sim_jobs = []
    nsim = 2 if QUICK else 6
    for k in range(nsim):
        for cfg, me in (("MC_Raft3_sim.cfg", 0), ("MC_Raft3_sim1.cfg", 1)):
            num = 60 if QUICK else 300
            sim_jobs.append((me, False, pool.submit(tlc_simulate, cfg, num, 40, SEED * 1000 + k * 2 + me + 1), None))
    nsim_pv = 1 if QUICK else 4
    for k in range(nsim_pv):
        for cfg, me in (("MC_Raft3_sim_prevote.cfg", 0), ("MC_Raft3_sim1_prevote.cfg", 1)):
            num = 60 if QUICK else 300
            sim_jobs.append((me, True, pool.submit(tlc_simulate, cfg, num, 40, SEED * 1000 + 500 + k * 2 + me + 1), None))
    nsim_cc = 1 if QUICK else 4
    for k in range(nsim_cc):
        for j, (cfg, me, pv, voters, depth) in enumerate(SIM_CONF):
            num = (300 if QUICK else 600) if j == 0 else (80 if QUICK else 200)
            sim_jobs.append((me, pv, pool.submit(tlc_simulate, cfg, num, depth, SEED * 1000 + 700 + k * 2 + j + 1), voters))
    atk_jobs = {}
    live_flags = FLAGS_CHEAP if QUICK else FLAGS_ALL
    for fl in live_flags:
        heavy = fl in ("AppendTruncates", "HeartbeatCommit", "CommitAnyTerm", "ConfNoPending", "AddedVoterCaughtUp", "KeepMatch")
        atk_jobs[fl] = pool.submit(tlc_attack, fl, 8 if fl == "KeepMatch" else 4 if heavy else 1, 2400 if fl == "KeepMatch" else 1000 if heavy else 300)

    # ---- 3. random runs on the real code
    nfiles = 12 if QUICK else 16
    runs_per = 16 if QUICK else 64
    events = 300 if QUICK else 400
    rnd_files = []
    t = time.time()
    rnd_stats = []

    njoint = 1 if QUICK else 4      # extra files of the joint-consensus profile (explicit joint configs, disjoint majorities)

    def gen_random(k):
        p = os.path.join(work, "rand-%02d.ndjson" % k)
        cmd = [sim_bin, "random", "-seed", str(SEED * 100 + k), "-runs", str(runs_per), "-events", str(events), "-out", p]
        if k >= nfiles:
            cmd = [sim_bin, "random", "-seed", str(SEED * 100 + k), "-runs", str(48 if QUICK else 120), "-events", "300",
                   "-profile", "n5-joint", "-out", p]
        pr = subprocess.run(cmd, stdout=subprocess.PIPE, stderr=subprocess.STDOUT, text=True, timeout=600)
        return p, pr

    for p, pr in pool.map(gen_random, range(nfiles + njoint)):
        if pr.returncode != 0:
            common.die_infra("raftsim random failed:\n" + pr.stdout[-2000:])
        m = re.search(r"^STATS (.*)$", pr.stdout, re.M)
        rnd_stats.append(json.loads(m.group(1)) if m else {})
        rnd_files.append(p)
    log("random: %d files x %d runs x %d events generated in %.1fs" % (nfiles, runs_per, events, time.time() - t))
    # thorough: big files are split so that monitors run in parallel and TLC memory stays low
    rnd_parts = []
    for p in rnd_files:
        rnd_parts += split_trace(p, work, os.path.basename(p)[:-7] + "-p", 6000)
    mon_jobs = [("random", os.path.basename(p), p, pool.submit(run_monitor, p)) for p in rnd_parts]

    # ---- 3b. B2: spec-scope random runs validated against EtcdRaft.tla (and monitored like all real runs)
    b2_jobs = []
    nb2 = 1 if QUICK else 6
    for k in range(nb2):
        for prof, cfg in (("n3-spec", "TraceEtcdRaft.cfg"), ("n3-spec-one", "TraceEtcdRaft_one.cfg"),
                          ("n3-spec-prevote", "TraceEtcdRaft_prevote.cfg"), ("n3-spec-prevote-one", "TraceEtcdRaft_prevote_one.cfg"),
                          ("n3-spec-conf", "TraceEtcdRaft_conf.cfg"), ("n3-spec-conf12-prevote-one", "TraceEtcdRaft_conf12_prevote_one.cfg")):
            p = os.path.join(work, "b2-%s-%d.ndjson" % (prof, k))
            pr = subprocess.run([sim_bin, "random", "-seed", str(SEED * 100 + 50 + k), "-runs", str(12 if QUICK else 40), "-events", "300",
                                 "-nodes", "-1", "-msgs", "-profile", prof, "-out", p],
                                stdout=subprocess.PIPE, stderr=subprocess.STDOUT, text=True, timeout=600)
            if pr.returncode != 0:
                common.die_infra("raftsim random (B2) failed:\n" + pr.stdout[-2000:])
            m = re.search(r"^STATS (.*)$", pr.stdout, re.M)
            rnd_stats.append(json.loads(m.group(1)) if m else {})
            rnd_files.append(p)
            b2_jobs.append((p, cfg, pool.submit(run_trace_validation, p, cfg)))
            mon_jobs.append(("random", os.path.basename(p), p, pool.submit(run_monitor, p)))

    # ---- 4. collect schedules, replay on the real code
    behaviours = []
    seen = set()
    sim_total = 0
    sim_pv_total = 0
    sim_cc_total = 0
    for me, pv, fj, cc_voters in sim_jobs:
        r, scheds = fj.result()
        if r.rc != 0 or r.violated or r.timed_out:
            common.die_infra("TLC -simulate failed (rc=%s violated=%s):\n%s" % (r.rc, r.violated, r.out[-3000:]))
        for st in scheds:
            sim_total += 1
            sim_pv_total += 1 if (pv and cc_voters is None) else 0
            sim_cc_total += 1 if cc_voters is not None else 0
            h = hashlib.md5(json.dumps([x["a"] for x in st], sort_keys=True).encode()).hexdigest() + str(me) + str(pv) + str(cc_voters)
            if h in seen:
                continue
            seen.add(h)
            behaviours.append({"id": ("sim-cc-%d" if cc_voters is not None else "sim-pv-%d" if pv else "sim-%d") % len(behaviours),
                               "opt": {"nodes": 3, "voters": cc_voters or [1, 2, 3], "learners": [], "maxents": me, "prevote": pv},
                               "lockstep": True, "steps": st})
    log("TLC -simulate: %d behaviours (%d distinct; %d with PreVote, %d with membership changes) of depth 40-45" % (
        sim_total, len(behaviours), sim_pv_total, sim_cc_total))

    attacks = {}
    if os.path.exists(ATTACK_FILE):
        for k, v in json.load(open(ATTACK_FILE)).items():
            attacks[k] = list(v)
    stored = sum(len(v) for v in attacks.values())
    live = 0
    for fl, fj in atk_jobs.items():
        r, found = fj.result()
        if r.timed_out and not found:
            log("attack search %s timed out (stored schedules are used)" % fl)
            continue
        if not found:
            common.die_infra("weakened spec %s: TLC found no safety violation (rc=%s) - spec or bounds broken:\n%s" % (fl, r.rc, r.out[-2000:]))
        for st in found:
            if st not in attacks.setdefault(fl, []):
                attacks[fl].append(st)
                live += 1
    natk = 0
    for fl in sorted(attacks):
        for k, st in enumerate(attacks[fl]):
            opt = {"nodes": 3, "voters": [1, 2, 3], "learners": [], "maxents": 0}
            opt.update(ATTACK_OPT.get(fl, {}))
            behaviours.append({"id": "attack-%s-%d" % (fl, k), "opt": opt, "lockstep": False, "quiesce": 3, "steps": expand_lost(st)})
            natk += 1
    log("attack schedules: %d (stored %d, new from live TLC runs %d) for rules %s" % (natk, stored, live, sorted(attacks)))

    # the behaviours are dealt round-robin to a few raftsim processes (each replays its share sequentially on its own RawNodes)
    nrep = 3 if QUICK else 6

    def replay_chunk(c):
        sched_path = os.path.join(work, "schedules-%d.ndjson" % c)
        with open(sched_path, "w") as f:
            for b in behaviours[c::nrep]:
                f.write(json.dumps(b, separators=(",", ":")) + "\n")
        rep_path = os.path.join(work, "replay-%d.ndjson" % c)
        pr = subprocess.run([sim_bin, "replay", "-schedule", sched_path, "-out", rep_path], stdout=subprocess.PIPE,
                            stderr=subprocess.STDOUT, text=True, timeout=900)
        return rep_path, pr

    results, rep_outs = [], []
    replays = list(pool.map(replay_chunk, range(nrep)))
    hist = action_histogram(behaviours)      # needs the expected projections: computed before they are dropped
    # the expected projections are on disk now (schedule files) and no longer needed here: in the thorough tier they are
    # several GB of parsed JSON (the kernel killed this process for memory, exit 137)
    for b_ in behaviours:
        for st_ in b_["steps"]:
            st_.pop("s", None)
    import gc
    gc.collect()
    for rep_path, pr in replays:
        if pr.returncode != 0:
            common.die_infra("raftsim replay failed:\n" + pr.stdout[-3000:])
        results += [json.loads(l[7:]) for l in pr.stdout.splitlines() if l.startswith("RESULT ")]
        m = re.search(r"^STATS (.*)$", pr.stdout, re.M)
        rep_outs.append((rep_path, json.loads(m.group(1)) if m else {}))
    if len(results) != len(behaviours):
        common.die_infra("raftsim replay returned %d results for %d behaviours" % (len(results), len(behaviours)))
    divergences = [r for r in results if r["id"].startswith("sim-") and r["diverged_at"]]
    lock_ok = sum(1 for r in results if r["id"].startswith("sim-") and not r["diverged_at"])
    lock_steps = sum(r["compared"] for r in results if r["id"].startswith("sim-"))
    lock_ok_pv = sum(1 for r in results if r["id"].startswith("sim-pv-") and not r["diverged_at"])
    lock_steps_pv = sum(r["compared"] for r in results if r["id"].startswith("sim-pv-"))
    lock_ok_cc = sum(1 for r in results if r["id"].startswith("sim-cc-") and not r["diverged_at"])
    lock_steps_cc = sum(r["compared"] for r in results if r["id"].startswith("sim-cc-"))
    atk_skipped = sum(r["skipped"] for r in results if r["id"].startswith("attack-"))
    log("replay: %d behaviours on real RawNodes, lockstep agreed on %d (%d compared steps; of these %d behaviours / %d steps with "
        "PreVote, %d behaviours / %d steps with membership changes), diverged %d" % (
            len(results), lock_ok, lock_steps, lock_ok_pv, lock_steps_pv, lock_ok_cc, lock_steps_cc, len(divergences)))
    rep_parts = []
    for c, (rep_path, _) in enumerate(rep_outs):
        rep_parts += split_trace(rep_path, work, "replay-%d-p" % c, 6000)
    mon_jobs += [("replay", os.path.basename(p), p, pool.submit(run_monitor, p)) for p in rep_parts]

    # ---- 5. monitors = the verdict
    traces = 0
    lines_checked = 0
    mism_total = 0
    first_sample_trace = rnd_parts[0]
    for kind, name, p, fj in mon_jobs:
        ok, mism, n, r = fj.result()
        if not ok:
            common.die_infra("RaftObs monitor failed on %s (rc=%s):\n%s" % (name, r.rc, r.out[-3000:]))
        lines_checked += n
        with open(p) as f:
            traces += sum(1 for line in f if '"ev":"reset"' in line[:40])
        for mm in mism:
            mism_total += 1
            src_name = name
            if kind == "replay":
                # which behaviour? find the reset note
                run, _ = extract_run(p, mm["line"])
                try:
                    src_name = json.loads(run[0])["arg"].get("note", name)
                except Exception:
                    pass
                k2 = "replay-attack" if src_name.startswith("attack-") else "replay-sim"
            else:
                k2 = "random"
            save_violation(verdict, k2, src_name, p, mm)
    log("RaftObs: %d real traces, %d lines, %d mismatches" % (traces, lines_checked, mism_total))

    # ---- 5b. B2 results
    b2_lines = b2_matched = b2_traces = b2_lines_pv = b2_matched_pv = b2_lines_cc = b2_matched_cc = 0
    b2_div = []
    for p, cfg, fj in b2_jobs:
        ok, n, matched, r = fj.result()
        if not ok:
            common.die_infra("TraceEtcdRaft failed on %s (rc=%s):\n%s" % (p, r.rc, r.out[-3000:]))
        b2_lines += n
        if "conf" in cfg:
            b2_lines_cc += n
            b2_matched_cc += n if (matched >= n and r.rc == 0) else max(0, matched - 1)
        elif "prevote" in cfg:
            b2_lines_pv += n
            b2_matched_pv += n if (matched >= n and r.rc == 0) else max(0, matched - 1)
        if matched >= n and r.rc == 0:
            b2_matched += n
            with open(p) as f:
                b2_traces += sum(1 for line in f if '"ev":"reset"' in line[:40])
        else:
            b2_matched += max(0, matched - 1)
            ev = ""
            try:
                with open(p) as f:
                    for k, line in enumerate(f, 1):
                        if k == matched:
                            e = json.loads(line)
                            ev = json.dumps(e.get("arg"))[:300]
                            break
            except Exception:
                pass
            b2_div.append({"trace": os.path.basename(p), "line": matched, "violated": r.violated, "event": ev})
    log("B2 trace validation against EtcdRaft.tla: %d/%d lines matched (PreVote runs: %d/%d, membership-change runs: %d/%d), "
        "%d traces fully accepted, %d rejected" % (
            b2_matched, b2_lines, b2_matched_pv, b2_lines_pv, b2_matched_cc, b2_lines_cc, b2_traces, len(b2_div)))

    # ---- 6. vacuity guard: corrupted copies of an accepted trace must be rejected
    corr = {}
    if mism_total == 0:
        corr = corruption_selftest(first_sample_trace, work)
        if not corr or not all(corr.values()):
            common.die_infra("monitor vacuity self-test failed: %s" % corr)
        log("monitor rejects corrupted traces: %s" % corr)

    # ---- 7. model sanity result
    r = f_mc.result()
    common.tlc_ok(r, MC_CFG + " exhaustive")
    log("TLC " + MC_CFG + ": %d states generated, %d distinct, depth %d, %.1fs" % (r.generated, r.distinct, r.depth, r.wall))
    rpv = f_mc_pv.result()
    common.tlc_ok(rpv, MC_PV_CFG + " exhaustive")
    log("TLC " + MC_PV_CFG + " (PreVote = TRUE): %d states generated, %d distinct, depth %d, %.1fs" % (rpv.generated, rpv.distinct, rpv.depth, rpv.wall))
    prevote_states = {"cfg": MC_PV_CFG, "states": rpv.distinct, "transitions": rpv.generated, "depth": rpv.depth, "exhaustive": True}
    rcc = f_mc_cc.result()
    common.tlc_ok(rcc, MC_CC_CFG + " exhaustive")
    log("TLC " + MC_CC_CFG + " (ConfChange = TRUE): %d states generated, %d distinct, depth %d, %.1fs" % (rcc.generated, rcc.distinct, rcc.depth, rcc.wall))
    conf_states = {"cfg": MC_CC_CFG, "states": rcc.distinct, "transitions": rcc.generated, "depth": rcc.depth, "exhaustive": True}
    rf = f_mc_cc2.result()
    common.tlc_ok(rf, MC_CC_CFG2 + " exhaustive")
    conf_states2 = {"cfg": MC_CC_CFG2, "states": rf.distinct, "transitions": rf.generated, "depth": rf.depth, "exhaustive": True}
    log("TLC " + MC_CC_CFG2 + " (ConfChange = TRUE): %d states generated, %d distinct, depth %d, %.1fs" % (rf.generated, rf.distinct, rf.depth, rf.wall))
    faults_pv_states = None
    if f_faults_pv is not None:
        rf = f_faults_pv.result()
        common.tlc_ok(rf, "MC_Raft3_prevote_faults.cfg exhaustive")
        faults_pv_states = {"states": rf.distinct, "transitions": rf.generated, "depth": rf.depth}
        log("TLC MC_Raft3_prevote_faults.cfg (PreVote = TRUE; crash/restart/drop/heartbeat, one term): %d generated, %d distinct, %.1fs" % (
            rf.generated, rf.distinct, rf.wall))
    faults_states = None
    if f_faults is not None:
        rf = f_faults.result()
        common.tlc_ok(rf, "MC_Raft3_faults.cfg exhaustive")
        faults_states = {"states": rf.distinct, "transitions": rf.generated, "depth": rf.depth}
        log("TLC MC_Raft3_faults.cfg (crash/restart/drop/dup/heartbeat, one term): %d generated, %d distinct, %.1fs" % (rf.generated, rf.distinct, rf.wall))
    cov_zero = [a for a in REQUIRED_ACTIONS if not hist.get(a)]
    log("spec actions exercised by replayed TLC behaviours: %s" % json.dumps(hist, sort_keys=True))
    if cov_zero and not verdict.violations:
        common.die_infra("spec actions never taken by the TLC-generated behaviours: %s" % cov_zero)

    panics = sum(len(s.get("panics") or []) for s in rnd_stats) + sum(len(st.get("panics") or []) for _, st in rep_outs)
    panic_samples = []
    for p, s in zip(rnd_files, rnd_stats):
        panic_samples += report_panics(verdict, "random", p, s.get("panics"))
    for rep_path, st in rep_outs:
        panic_samples += report_panics(verdict, "replay", rep_path, st.get("panics"))

    # ---- 7b. the Ready/Advance window
    w_viol, w_div, w_cov = window_collect()
    log("ReadyWindow: %d transitions replayed on a real RawNode (%d real steps), %d violating, %d diverging replays" % (
        w_cov["transitions_replayed"], w_cov["real_steps"], w_cov["violating_replays"], w_cov["diverging_replays"]))
    for f in w_viol:
        sig = {"branch": "raft.window." + f["kind"], "kind": "real-rawnode-output", "detail": f["branch"]}
        verdict.report(sig, {"family_leader_logs_by_term": f["family"], "steps": f["path"], "instance": f["instance"], "replays_failing_alike": f["count"],
                             "how": "raftsim window replays `steps` on one real raft.RawNode (follower, id 1 of 5 voters) over MemoryStorage: app = "
                                    "Step(MsgApp of the leader of that term: prev index/term, entries' terms, commit), ready = RawNode.Ready, save = "
                                    "storage.Append(rd.Entries)+SetHardState then the messages leave, advance = RawNode.Advance(rd)"},
                       "%s [%s, %s]: %s; after %s" % (f["kind"], f["phase"], f["branch"], f["detail"], " ; ".join(f["path"])))
    for f in w_div[:5]:
        print("DIVERGENCE property=C15 kind=ready-window/%s at=%s detail=%s path=%s" % (f["kind"], f["branch"], f["detail"], " ; ".join(f["path"])), flush=True)

    # ---- 8. divergences / panics that no monitor turned into a violation
    for d in divergences[:5]:
        print("DIVERGENCE property=C15 kind=lockstep behaviour=%s step=%d action=%s detail=%s" % (
            d["id"], d["diverged_at"], d.get("action"), d.get("detail")), flush=True)
    for d in b2_div[:5]:
        print("DIVERGENCE property=C15 kind=trace-validation trace=%s line=%d spec-invariant=%s event=%s" % (
            d["trace"], d["line"], d["violated"], d["event"]), flush=True)
    for ptxt in panic_samples[:5]:
        print("DIVERGENCE property=C15 kind=panic %s" % ptxt, flush=True)

    ev_stats = {}
    for s in rnd_stats:
        for k, v in (s.get("stats") or {}).items():
            ev_stats[k] = ev_stats.get(k, 0) + v
    samples = []
    for b in behaviours[:2] + [b for b in behaviours if b["id"].startswith("attack-")][:3]:
        samples.append({"schedule": b["id"], "lockstep": b["lockstep"], "actions": [
            (st["a"]["name"], st["a"].get("i") or [st["a"]["m"][k] for k in ("ty", "fr", "to", "tm", "ix", "rj")] if "m" in st["a"] else st["a"].get("i"))
            for st in b["steps"][:14]]})
    try:
        with open(rnd_parts[0]) as f:
            evs = []
            for k, line in enumerate(f):
                if k >= 25:
                    break
                e = json.loads(line)
                evs.append([e["ev"], e["node"]])
        samples.append({"random_run_prefix": evs})
    except Exception:
        pass
    coverage = {
        "states": r.distinct, "transitions": r.generated, "exhaustive": True,
        "model": MC_CFG + " (3 voters; bounds in the cfg); invariants ElectionSafety LogMatching StateMachineSafety LeaderCompleteness CommitWithinLog PersistedMatchesVolatile MatchSound + action property HardStateMonotonic",
        "model_depth": r.depth,
        "traces_validated_against_impl": traces,
        "trace_lines_monitored": lines_checked,
        "monitor_mismatches": mism_total,
        "prevote_model": prevote_states, "prevote_faults_instance": faults_pv_states,
        "lockstep_behaviours_agreed": lock_ok, "lockstep_steps_compared": lock_steps, "lockstep_divergences": len(divergences),
        "lockstep_prevote_behaviours_agreed": lock_ok_pv, "lockstep_prevote_steps_compared": lock_steps_pv,
        "confchange_model": conf_states, "confchange_model_2": conf_states2,
        "lockstep_confchange_behaviours_agreed": lock_ok_cc, "lockstep_confchange_steps_compared": lock_steps_cc,
        "tlc_simulated_confchange_behaviours": sim_cc_total,
        "b2_confchange_trace_lines": b2_lines_cc, "b2_confchange_trace_lines_matched_by_spec": b2_matched_cc,
        "tlc_simulated_behaviours": sim_total, "tlc_simulated_prevote_behaviours": sim_pv_total,
        "b2_trace_lines": b2_lines, "b2_trace_lines_matched_by_spec": b2_matched, "b2_traces_accepted": b2_traces, "b2_rejections": len(b2_div),
        "b2_prevote_trace_lines": b2_lines_pv, "b2_prevote_trace_lines_matched_by_spec": b2_matched_pv,
        "attack_schedules": natk, "attack_rules": sorted(attacks), "attack_steps_not_applicable_on_impl": atk_skipped,
        "random_runs": nfiles * runs_per + njoint * (48 if QUICK else 120), "random_events": ev_stats,
        "panics_in_library": panics,
        "monitor_rejects_corrupted": corr,
        "spec_action_histogram": hist, "faults_instance": faults_states,
        "ready_window": w_cov,
        "samples": samples,
    }
    assumptions = [
        "verdict = RaftObs.tla clauses evaluated by TLC on projections of real raft.RawNode state after every event (API granularity; unstable entries are not visible)",
        "disk model: entries, term/vote changes, snapshots and compactions are synced; commit-only HardState writes are not and may be lost in a crash (MustSync)",
        "EtcdRaft.tla covers fixed membership and SIMPLE membership changes (one voter added or removed per raftpb.ConfChange / single-change ConfChangeV2, applied when committed; three nodes) without snapshots/CheckQuorum, with and without PreVote (PreVote only with CheckQuorum off: no leader lease); joint configurations, learners, auto-leave, snapshots and CheckQuorum (also combined with PreVote) are exercised only by the random scheduler and judged by RaftObs",
        "raft.pendingConfIndex is not visible through RawNode.Status: the lockstep replay observes it through its effect (a refused conf change is appended as an empty normal entry); a restarted node starts from the genesis configuration (raftsim's storage has no snapshot in these runs) and re-applies every committed conf change",
        "proposal forwarding disabled, MaxInflightMsgs=256, MaxSizePerMsg unlimited or one entry; ReadIndex and leader transfer not exercised",
        "election timeouts are not simulated with the package RNG: Campaign() is an explicit event, followers tick with TickQuiesced",
        "ReadyWindow: the node under test is a follower that is never asked for its vote (five voters, the four others elect the leaders); leaders' logs per behaviour from a fixed family (quick: 2 families of 2 leaders; thorough: 3 families of 2 leaders replayed; 4 families of 3 leaders and all 127 families with logs <= 3 model-checked); log compaction by the application and the node's own leadership are outside this specification",
        "a panic raised by one of the library's own log-safety assertions (tocommit out of range, conflict with committed entry, ...) in a legal schedule counts as a violation (kind safety-assertion-panic); never observed on the unchanged tree",
    ]
    if divergences or panic_samples or b2_div or w_div:
        if not verdict.violations:
            # behaviour of the library departs from the specification (or it panics) but no clause of C15 was
            # falsified on any real trace: conservative "not shown" (DESIGN 2.2 B3 step 5)
            common.write_evidence(PROP, TIER, "model_checking", coverage, assumptions, time.time() - T0, 0)
            print("INFRA-ERROR: unreproduced divergence between EtcdRaft.tla and the raft library (%d lockstep, %d trace-validation, "
                  "%d unclassified panics, %d Ready-window replays); no C15 clause falsified" % (len(divergences), len(b2_div), len(panic_samples), len(w_div)), flush=True)
            sys.exit(2)
    verdict.finish(TIER, "model_checking", coverage, assumptions)


if __name__ == "__main__":
    try:
        main()
    except SystemExit:
        raise
    except subprocess.TimeoutExpired as e:
        common.die_infra("timeout: %s" % e)
    except Exception as e:  # noqa
        import traceback
        traceback.print_exc()
        common.die_infra("unexpected error: %r" % e)
