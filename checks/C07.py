#!/usr/bin/env python3
"""C07 cluster mode: linearizable, every client gets its own reply, replicas agree, load never kills a node.
Model: spec/ClusterLin.tla (the layer RedisGO builds on the agreed log: callbacks, pump, apply loop, crash/restart) is
model-checked by TLC for ReplicaAgreement, AckedExactlyOnce, OwnReply and RealTime; the instance with a
locally-random command shows why replicas can diverge (the lead for the recorded findings).
Binding: real multi-process clusters (lib/cluster.py). Concurrent TCP clients send commands to ANY node while a fault
schedule runs (kill -9 and restart of a follower, kill of an arbitrary node incl. the leader, SIGSTOP/SIGCONT pauses,
thorough: 5 nodes and repeated faults). Every invocation/response is recorded with a global ticket; commands that got
no reply (node killed, no leader) stay 'unanswered' (they may or may not take effect). After the faults every node is
restarted, and every key is read back through EVERY node's own port. TLC decides linearizability of the whole history
(spec/TraceLin.tla, sequential meaning = Keyspace.Exec); unexpected node deaths are violations."""
import concurrent.futures, json, os, random, threading, time
import common, ks, server, cluster, conc

tier = common.tier_arg()
v = common.Verdict("C07")
seed = common.seed()
d = common.scratch("c07-")

res = common.run_tlc("ClusterLin", cfg="ClusterLin.cfg", workers=8, heap="3g", timeout=900)
common.tlc_ok(res, "ClusterLin")
lead = common.run_tlc("ClusterLin", cfg="ClusterLin_random.cfg", workers=8, heap="3g", timeout=900)
cov = {"states": res.distinct, "transitions": res.generated, "traces_validated_against_impl": 0, "samples": [], "scenarios": {},
       "model_random_command_breaks_replica_agreement": lead.violated == "ReplicaAgreement"}


from clusterscen import conv, READ_ONLY, Recorder, leader_of
import clusterscen


def client_loop(cl, rec, cid, nops, rnd, stop, stats, pinned=None, barrier=None, pace=0.0):
    """pinned: the client keeps ONE connection to that node for all its commands (so that every node serves the same
    number of proposals at the same moments: ids or sequence numbers that are only unique per node then collide)."""
    conn, node = None, None
    unanswered = 0
    if barrier is not None:
        barrier.wait()
    for i in range(nops):
        if stop.is_set() or unanswered >= 2:
            break
        if pace:
            time.sleep(pace)
        if conn is None:
            alive = [n for n in cl.nodes if n.alive()]
            if not alive:
                time.sleep(0.2)
                continue
            node = pinned if (pinned is not None and pinned.alive()) else rnd.choice(alive)
            try:
                conn = node.client(timeout=4.0)
            except Exception:
                conn = None
                time.sleep(0.2)
                continue
        u = "c%dv%d" % (cid, i)
        argv = rnd.choice([["INCR", "ctr"], ["INCR", "ctr"], ["SET", "reg", u], ["GET", "reg"], ["RPUSH", "lst", u], ["LPOP", "lst"], ["LLEN", "lst"],
                           ["SADD", "st", u], ["SCARD", "st"], ["APPEND", "app", u + ";"], ["GET", "ctr"], ["SETNX", "once", u], ["GET", "once"],
                           ["HINCRBY", "h", "n", "1"], ["SET", "sp", "a b  c\r\n" + u]])
        op = rec.new_op(argv)
        try:
            r = conn.cmd(*argv, timeout=4.0)
            rec.done(op, conv(r))
            stats["answered"] += 1
        except Exception:
            unanswered += 1
            stats["unanswered"] += 1
            try:
                conn.close()
            except Exception:
                pass
            conn = None
        if pinned is None and rnd.random() < 0.3:
            try:
                conn.close()
            except Exception:
                pass
            conn = None   # switch node


def scenario(args):
    name, n, faults, nclients, nops, idx = args
    rnd = random.Random(seed * 1000 + idx)
    membership = name.startswith("membership")
    cl = cluster.Cluster(n, trace=name.startswith("pinned"), join_later=1 if "add-node" in faults else 0).start_all()
    rec = Recorder(idx)
    stats = {"answered": 0, "unanswered": 0, "faults": []}
    killed_by_us = set()
    result = {"name": name, "stats": stats, "path": None, "violations": [], "inconclusive": None}
    try:
        if cl.wait_serving(timeout=60) is None:
            result["inconclusive"] = "cluster did not start serving"
            return result
        stop = threading.Event()
        if name.startswith("pinned"):
            # align the number of proposals every node has accepted so far (hook trace), so that identifiers or counters
            # that are only unique per node collide across nodes when the pinned clients advance together
            counts = {nd.id: sum(1 for e in cl.events(nd) if e.get("ev") == "propose") for nd in cl.nodes[:n]}
            top = max(counts.values())
            for nd in cl.nodes[:n]:
                c = nd.client(timeout=5.0)
                for _ in range(top - counts[nd.id]):
                    c.cmd("PING")
                c.close()
            bar = threading.Barrier(n)
            threads = [threading.Thread(target=client_loop, args=(cl, rec, c, nops, random.Random(rnd.random()), stop, stats, cl.nodes[c], bar)) for c in range(n)]
        else:
            # stall scenarios: paced clients that keep going until the stall is over, so that commands are in flight when the
            # quorum disappears and when it comes back
            stalling = any(f.startswith("stall:") for f in faults)
            threads = [threading.Thread(target=client_loop, args=(cl, rec, c, 100000 if stalling else nops, random.Random(rnd.random()), stop, stats),
                                        kwargs={"pace": 0.02 if stalling else 0.0}) for c in range(nclients)]
        for t in threads:
            t.start()
        removed = set()
        for f in faults:
            time.sleep(0.6 + rnd.random() * 0.8)
            victim = rnd.choice(cl.nodes[:n])
            if f == "add-node":
                new = cl.nodes[n]
                try:
                    c = cl.nodes[0].client(timeout=5.0)
                    c.cmd("RCONF", "add", str(new.id), "http://127.0.0.1:%d" % new.raft_port)
                    c.close()
                except Exception:
                    pass
                time.sleep(0.5)
                cl.start_node(new, join=True, peers=cl.peers(n + 1))
                stats["faults"].append("RCONF add %d + join" % new.id)
                cl.wait_serving(nodes=[new], timeout=40)
            elif f == "remove-node":
                gone = cl.nodes[n - 1]      # remove the highest-numbered original member
                try:
                    c = cl.nodes[0].client(timeout=5.0)
                    c.cmd("RCONF", "delete", str(gone.id))
                    c.close()
                except Exception:
                    pass
                removed.add(gone.id)
                stats["faults"].append("RCONF delete %d" % gone.id)
                time.sleep(1.0)
            elif f == "kill-restart":
                killed_by_us.add(victim.id)
                cl.kill(victim)
                stats["faults"].append("kill node %d" % victim.id)
                time.sleep(0.8 + rnd.random())
                cl.start_node(victim)
                stats["faults"].append("restart node %d" % victim.id)
            elif f.startswith("stall:"):
                # the quorum is lost for a while (all nodes but a minority stopped) with commands in flight, then comes back:
                # nothing may be lost, applied twice or answered with somebody else's reply however long a proposal waited
                dur = float(f.split(":")[1])
                # alternately: the leader stays (it keeps accepting proposals it cannot commit) / random nodes stay
                ld = leader_of(cl) if idx % 2 == 1 else None
                victims = [nd for nd in cl.nodes[:n] if nd is not ld][:n - n // 2] if ld is not None else rnd.sample(cl.nodes[:n], n - n // 2)
                for vn in victims:
                    cl.stop_cont(vn, True)
                stats["faults"].append("SIGSTOP nodes %s for %.1f s" % ([vn.id for vn in victims], dur))
                time.sleep(dur)
                for vn in victims:
                    cl.stop_cont(vn, False)
                stats["faults"].append("SIGCONT nodes %s" % [vn.id for vn in victims])
            elif f == "pause":
                cl.stop_cont(victim, True)
                stats["faults"].append("SIGSTOP node %d" % victim.id)
                time.sleep(1.5)
                cl.stop_cont(victim, False)
                stats["faults"].append("SIGCONT node %d" % victim.id)
        if any(f.startswith("stall:") for f in faults):
            time.sleep(1.0)
            stop.set()
        for t in threads:
            t.join(timeout=120)
        stop.set()
        # unexpected deaths
        members = [nd for nd in cl.nodes if nd.id not in removed and (nd.p is not None)]
        for nd in members:
            if not nd.alive():
                result["violations"].append(({"branch": "cluster.node", "kind": "node-died", "detail": name},
                                             {"scenario": name, "faults": stats["faults"], "log": cl.tail(nd, 2500)},
                                             "node %d died (not killed by the schedule at that moment) in scenario %s: %s" % (nd.id, name, cl.tail(nd, 300))))
                cl.start_node(nd)
        path = os.path.join(d, "hist-%d.ndjson" % idx)

        def wedged(why):
            # without any injected fault a cluster that stops serving was brought down by client load alone: a violation of
            # "concurrent client load never brings a node down"; after faults it is only counted as inconclusive.
            # Either way the history recorded so far is still checked.
            rec.write(path)
            result["path"] = path
            if not faults:
                result["violations"].append(({"branch": "cluster.load", "kind": "unavailable-after-load", "detail": name},
                                             {"scenario": name, "why": why, "stats": dict(stats), "logs": {nd.id: cl.tail(nd, 800) for nd in cl.nodes[:n]}},
                                             "scenario %s (no faults injected): %s - %d commands answered, %d never answered" % (name, why, stats["answered"], stats["unanswered"])))
            else:
                result["inconclusive"] = why
            return result
        serving = cl.wait_serving(nodes=members, timeout=60) is not None
        if not serving and not faults:
            return wedged("the cluster does not serve any more after the client load")
        # read every key back through every node (sequential operations at the end of the history); after injected faults a
        # node that does not answer is skipped (counted as inconclusive) and the others are still read: whatever they
        # return must be explained by the history
        problems = []
        for nd in members:
            try:
                c = nd.client(timeout=6.0)
            except Exception:
                problems.append("node %d does not accept connections after the run" % nd.id)
                continue
            for argv in (["GET", "ctr"], ["GET", "reg"], ["LRANGE", "lst", "0", "-1"], ["SMEMBERS", "st"], ["GET", "app"], ["GET", "once"], ["HGET", "h", "n"], ["GET", "sp"]):
                op = rec.new_op(argv)
                try:
                    rec.done(op, conv(c.cmd(*argv, timeout=6.0)))
                except Exception:
                    problems.append("read-back of %s through node %d got no reply" % (" ".join(argv), nd.id))
                    break
            try:
                c.close()
            except Exception:
                pass
        if problems:
            return wedged(problems[0])
        rec.write(path)
        result["path"] = path
        return result
    finally:
        cl.shutdown()


def lagging_read(args):
    """A follower is frozen (SIGSTOP) while a write is acknowledged by the other two nodes; a GET is then sent to the frozen
    follower, which is resumed. The GET was invoked after the write was acknowledged, so it must return the new value (or a
    later one): reads take their place in the agreed order like every other command. Recorded as a history and decided by
    TraceLin like the other scenarios."""
    name, rounds, idx = args
    cl = cluster.Cluster(3, trace=False).start_all()
    rec = Recorder(idx)
    stats = {"answered": 0, "unanswered": 0, "faults": []}
    result = {"name": name, "stats": stats, "path": None, "violations": [], "inconclusive": None}
    try:
        if cl.wait_serving(timeout=60) is None:
            result["inconclusive"] = "cluster did not start serving"
            return result
        L = None
        t0 = time.time()
        while L is None and time.time() - t0 < 30:      # answering PING need not mean that an election has happened
            L = leader_of(cl)
            if L is None:
                time.sleep(0.3)
        if L is None:
            result["inconclusive"] = "no leader line in the logs"
            return result
        followers = [nd for nd in cl.nodes if nd is not L]
        lc = L.client(timeout=8.0)
        for r in range(rounds):
            F = followers[r % 2]
            key = "lag%d" % r
            try:
                op = rec.new_op(["SET", key, "old%d" % r]); rec.done(op, conv(lc.cmd(*op["argv"], timeout=8.0)))
                fc = F.client(timeout=8.0)
                op = rec.new_op(["GET", key]); rec.done(op, conv(fc.cmd(*op["argv"], timeout=8.0)))   # the follower has applied "old"
                cl.stop_cont(F, True)
                op = rec.new_op(["SET", key, "new%d" % r]); rec.done(op, conv(lc.cmd(*op["argv"], timeout=8.0)))
                op = rec.new_op(["GET", key])
                fc.send_raw(server.encode(op["argv"]))
                time.sleep(0.05)
                cl.stop_cont(F, False)
                rec.done(op, conv(fc.read_reply(timeout=8.0)))
                stats["answered"] += 4
                fc.close()
            except Exception as e:
                cl.stop_cont(F, False)
                stats["unanswered"] += 1
                result["inconclusive"] = "round %d: %r" % (r, e)
                break
        stats["faults"].append("%d rounds of SIGSTOP follower / write through the leader / GET through the follower / SIGCONT" % rounds)
        path = os.path.join(d, "hist-%d.ndjson" % idx)
        rec.write(path)
        result["path"] = path
        return result
    finally:
        cl.shutdown()


def stalled_proposals(args):
    return clusterscen.stalled_proposals(args, d)


if tier == "quick":
    plan = [("steady", 3, [], 6, 20), ("follower-or-leader-kill", 3, ["kill-restart"], 5, 25), ("pause", 3, ["pause"], 5, 20),
            ("pinned-one-client-per-node", 3, [], 3, 40), ("membership-add", 3, ["add-node"], 5, 40), ("membership-remove", 3, ["remove-node"], 5, 40),
            ("quorum-stall", 3, ["stall:6.5"], 6, 150)]
else:
    plan = [("steady", 3, [], 8, 30), ("steady-5", 5, [], 8, 25), ("pinned-one-client-per-node", 3, [], 3, 60), ("pinned-5", 5, [], 5, 40),
            ("pinned-then-kill", 3, ["kill-restart"], 3, 60), ("membership-add", 3, ["add-node"], 6, 60), ("membership-remove", 3, ["remove-node"], 6, 60),
            ("membership-add-kill", 3, ["add-node", "kill-restart"], 6, 70), ("membership-remove-5", 5, ["remove-node", "kill-restart"], 6, 60)] + [("kill-restart", 3, ["kill-restart"], 5, 30)] * 4 + \
           [("two-kills", 3, ["kill-restart", "kill-restart"], 5, 35)] * 3 + [("pause", 3, ["pause"], 5, 25)] * 2 + \
           [("kill-5", 5, ["kill-restart", "pause", "kill-restart"], 6, 30)] * 2 + \
           [("quorum-stall", 3, ["stall:6.5"], 6, 150), ("quorum-stall-12", 3, ["stall:12"], 6, 150), ("quorum-stall-35", 3, ["stall:35"], 6, 150), ("quorum-stall-5", 5, ["stall:8"], 8, 150)]
jobs = [(name, n, faults, nc, nops, i + 1) for i, (name, n, faults, nc, nops) in enumerate(plan)]
ONLY = os.environ.get("VERIF_C07_ONLY")      # development aid: run only the scenarios whose name contains this
if ONLY:
    jobs = [j for j in jobs if ONLY in j[0]]
gates = [("send", 120), ("walsave", 120)] if tier == "quick" else [(g, o) for g in ("ready", "walsave", "append", "send", "publish", "advance") for o in (60, 200)]
fjobs = [("failover-after-follower-crash-at-%s" % g, g, o, 100 + i) for i, (g, o) in enumerate(gates)]
if ONLY:
    fjobs = [j for j in fjobs if ONLY in j[0]]
with concurrent.futures.ThreadPoolExecutor(max_workers=4) as ex:
    sjobs = [("stalled-proposals-%.1fs" % st, st, 300 + i) for i, st in enumerate([6.5] if tier == "quick" else [6.5, 12.0, 35.0])]
    if ONLY:
        sjobs = [j for j in sjobs if ONLY in j[0]]
    ljobs = [("read-through-lagging-follower", 6 if tier == "quick" else 40, 200)]
    if ONLY:
        ljobs = [j for j in ljobs if ONLY in j[0]]
    fut = [ex.submit(scenario, j) for j in jobs] + [ex.submit(clusterscen.failover, j, seed, d) for j in fjobs] + [ex.submit(lagging_read, j) for j in ljobs] + [ex.submit(stalled_proposals, j) for j in sjobs]
    results = [f.result() for f in fut]
hist_paths = []
skipped = 0
for r in results:
    cov["scenarios"].setdefault(r["name"], []).append(r["stats"])
    for sig, replay, what in r["violations"]:
        v.report(sig, replay, what=what)
    if r["inconclusive"]:
        skipped += 1
        print("NOTE: scenario %s inconclusive (%s) - read-back skipped" % (r["name"], r["inconclusive"]))
    if r["path"]:
        hist_paths.append((r["name"], r["path"]))
cov["skipped_inconclusive"] = skipped
with concurrent.futures.ThreadPoolExecutor(max_workers=4) as ex:
    for (name, path), (nonlin, states) in zip(hist_paths, ex.map(lambda p: conc.validate_hist_split(p[1], timeout=2400), hist_paths)):
        cov["traces_validated_against_impl"] += 1
        cov["states"] += states
        cov["transitions"] += states
        for n in nonlin:
            hist = conc.history_of(n["path"], n["sub_h"])     # the sub-history of the key concerned (linearizability is local)
            v.report({"branch": "cluster.lin." + ks.b2s(n["argv"][0]).lower(), "kind": "non-linearizable", "detail": name},
                     {"scenario": name, "history": hist, "failing_response": n},
                     what="scenario %s: no sequential order explains reply %s of %s (read-backs are per node: a replica that disagrees shows up here)\n  %s" % (
                         name, ks.show_reply(n["got"]), ks.show_argv(n["argv"]), "\n  ".join(hist[-30:])))
        if len(cov["samples"]) < 2:
            cov["samples"].append({"kind": "cluster history (%s)" % name, "events": conc.history_of(path, json.loads(open(path).readline())["h"])[:24]})

# ---- replica agreement for commands whose effect depends on local randomness / clock (recorded findings) ----
cl = cluster.Cluster(3, trace=False).start_all()
try:
    if cl.wait_serving(timeout=60) is not None:
        c = cl.nodes[0].client()
        c.cmd("SADD", "rs", "a", "b", "c", "d", "e", "f", "g", "h")
        for _ in range(3):
            c.cmd("SPOP", "rs")
        c.cmd("XADD", "rx", "*", "f", "v")
        views = {}
        for nd in cl.nodes:
            cc = nd.client()
            views[nd.id] = (sorted(x[1] for x in (cc.cmd("SMEMBERS", "rs")[1] or [])), cc.cmd("XRANGE", "rx", "-", "+"))
            cc.close()
        if len({json.dumps([x.decode("latin1") for x in s]) for s, _ in views.values()}) > 1:
            v.report({"branch": "replica.spop", "kind": "replica-divergence", "detail": ""}, {k: [x.decode("latin1") for x in s] for k, (s, _) in views.items()},
                     what="after SADD rs a..h and 3 x SPOP the replicas hold different sets: %s" % {k: s for k, (s, _) in views.items()})
        if len({repr(x) for _, x in views.values()}) > 1:
            v.report({"branch": "replica.xadd_auto", "kind": "replica-divergence", "detail": ""}, {k: repr(x) for k, (_, x) in views.items()},
                     what="after XADD rx * f v the replicas hold different stream IDs: %s" % {k: x for k, (_, x) in views.items()})
        # relative expiry is re-evaluated when a restarted node replays its log
        c.cmd("SET", "tk", "v", "EX", "2")
        cl.kill(cl.nodes[2])
        time.sleep(3.2)
        cl.start_node(cl.nodes[2])
        if cl.wait_serving(nodes=[cl.nodes[2]], timeout=40) is not None:
            tv = {}
            for nd in cl.nodes:
                cc = nd.client()
                tv[nd.id] = cc.cmd("GET", "tk")[1]
                cc.close()
            if len(set(tv.values())) > 1:
                v.report({"branch": "replica.ttl_replay", "kind": "replica-divergence", "detail": ""}, {k: repr(x) for k, x in tv.items()},
                         what="SET tk v EX 2, node 3 killed, 3 s later restarted: GET tk per node = %s" % tv)
        cov["replica_agreement_probe"] = "done"
finally:
    cl.shutdown()
v.finish(tier, "model_checking", cov, ["consensus is assumed in the model (C15 checks the Raft library); the real runs use the real Raft over rafthttp on localhost",
                                       "faults are produced by kill -9 / restart and SIGSTOP/SIGCONT of node processes (no network shim): loss and delay arise only from those",
                                       "commands that received no reply may or may not have taken effect (any outcome allowed by TraceLin)",
                                       "a scenario whose cluster does not become ready is skipped and counted, never reported"])
