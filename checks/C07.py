#!/usr/bin/env python3
"""C07 cluster mode: linearizable, every client gets its own reply, replicas agree, load never kills a node.
Model: spec/ClusterLin.tla (the layer RedisGO builds on the agreed log: callbacks, pump, apply loop, crash/restart) is
model-checked by TLC for ReplicaAgreement, AckedExactlyOnce, OwnReply and RealTime; the instance with a
locally-random command shows why replicas can diverge (the lead for the recorded findings).
Binding: real multi-process clusters (lib/cluster.py). Concurrent TCP clients send commands to ANY node while a fault
schedule runs (kill -9 and restart of a follower, kill of an arbitrary node incl. the leader, SIGSTOP/SIGCONT pauses,
thorough: 5 nodes and repeated faults). Every invocation/response is recorded with a global ticket; commands that got
no reply (node killed, no leader) stay 'unanswered' (they may or may not take effect). After the faults every node is
restarted, and every key is read back through EVERY node's own port. TLC decides linearizability of the whole history
(spec/TraceLin.tla, sequential meaning = Keyspace.Exec); unexpected node deaths are violations."""
import concurrent.futures, json, os, random, threading, time
import common, ks, server, cluster, conc

tier = common.tier_arg()
v = common.Verdict("C07")
seed = common.seed()
d = common.scratch("c07-")

res = common.run_tlc("ClusterLin", cfg="ClusterLin.cfg", workers=8, heap="3g", timeout=900)
common.tlc_ok(res, "ClusterLin")
lead = common.run_tlc("ClusterLin", cfg="ClusterLin_random.cfg", workers=8, heap="3g", timeout=900)
cov = {"states": res.distinct, "transitions": res.generated, "traces_validated_against_impl": 0, "samples": [], "scenarios": {},
       "model_random_command_breaks_replica_agreement": lead.violated == "ReplicaAgreement"}


def conv(r):
    t, val = r
    if t in ("+", "$"):
        return {"k": "nil", "v": [], "e": "", "a": []} if val is None else {"k": "str", "v": list(val), "e": "", "a": []}
    if t == ":":
        return {"k": "int", "v": list(str(val).encode()), "e": "", "a": []}
    if t == "-":
        return {"k": "err", "v": [], "e": "WRONGTYPE" if val.startswith(b"WRONGTYPE") else "OTHER", "a": []}
    return {"k": "nil", "v": [], "e": "", "a": []} if val is None else {"k": "arr", "v": [], "e": "", "a": [conv(x) for x in val]}


class Recorder:
    def __init__(self, h):
        self.h = h
        self.lock = threading.Lock()
        self.t = 0
        self.ops = []

    def tick(self):
        with self.lock:
            self.t += 1
            return self.t

    def new_op(self, argv):
        with self.lock:
            self.t += 1
            op = {"id": len(self.ops) + 1, "argv": argv, "inv": self.t, "res": None, "reply": None, "now": int(time.time())}
            self.ops.append(op)
            return op

    def done(self, op, reply):
        with self.lock:
            self.t += 1
            op["res"] = self.t
            op["reply"] = reply

    def write(self, path, append=False):
        evs = []
        for op in self.ops:
            evs.append((op["inv"], "inv", op))
            if op["res"] is not None:
                evs.append((op["res"], "res", op))
        evs.sort(key=lambda e: e[0])
        nil = {"k": "nil", "v": [], "e": "", "a": []}
        with open(path, "a" if append else "w") as f:
            f.write(json.dumps({"ev": "reset", "h": self.h, "id": 0, "now": 0, "argv": [], "answered": False}) + "\n")
            for _, kind, op in evs:
                argv = [list(a if isinstance(a, bytes) else a.encode()) for a in op["argv"]]
                if kind == "inv":
                    f.write(json.dumps({"ev": "inv", "h": self.h, "id": op["id"], "now": op["now"], "argv": argv,
                                        "reply": op["reply"] or nil, "answered": op["res"] is not None}) + "\n")
                else:
                    f.write(json.dumps({"ev": "res", "h": self.h, "id": op["id"], "now": op["now"], "argv": [], "reply": op["reply"], "answered": True}) + "\n")


def client_loop(cl, rec, cid, nops, rnd, stop, stats, pinned=None, barrier=None):
    """pinned: the client keeps ONE connection to that node for all its commands (so that every node serves the same
    number of proposals at the same moments: ids or sequence numbers that are only unique per node then collide)."""
    conn, node = None, None
    unanswered = 0
    if barrier is not None:
        barrier.wait()
    for i in range(nops):
        if stop.is_set() or unanswered >= 2:
            break
        if conn is None:
            alive = [n for n in cl.nodes if n.alive()]
            if not alive:
                time.sleep(0.2)
                continue
            node = pinned if (pinned is not None and pinned.alive()) else rnd.choice(alive)
            try:
                conn = node.client(timeout=4.0)
            except Exception:
                conn = None
                time.sleep(0.2)
                continue
        u = "c%dv%d" % (cid, i)
        argv = rnd.choice([["INCR", "ctr"], ["INCR", "ctr"], ["SET", "reg", u], ["GET", "reg"], ["RPUSH", "lst", u], ["LPOP", "lst"], ["LLEN", "lst"],
                           ["SADD", "st", u], ["SCARD", "st"], ["APPEND", "app", u + ";"], ["GET", "ctr"], ["SETNX", "once", u], ["GET", "once"],
                           ["HINCRBY", "h", "n", "1"], ["SET", "sp", "a b  c\r\n" + u]])
        op = rec.new_op(argv)
        try:
            r = conn.cmd(*argv, timeout=4.0)
            rec.done(op, conv(r))
            stats["answered"] += 1
        except Exception:
            unanswered += 1
            stats["unanswered"] += 1
            try:
                conn.close()
            except Exception:
                pass
            conn = None
        if pinned is None and rnd.random() < 0.3:
            try:
                conn.close()
            except Exception:
                pass
            conn = None   # switch node


def scenario(args):
    name, n, faults, nclients, nops, idx = args
    rnd = random.Random(seed * 1000 + idx)
    membership = name.startswith("membership")
    cl = cluster.Cluster(n, trace=name.startswith("pinned"), join_later=1 if "add-node" in faults else 0).start_all()
    rec = Recorder(idx)
    stats = {"answered": 0, "unanswered": 0, "faults": []}
    killed_by_us = set()
    result = {"name": name, "stats": stats, "path": None, "violations": [], "inconclusive": None}
    try:
        if cl.wait_serving(timeout=60) is None:
            result["inconclusive"] = "cluster did not start serving"
            return result
        stop = threading.Event()
        if name.startswith("pinned"):
            # align the number of proposals every node has accepted so far (hook trace), so that identifiers or counters
            # that are only unique per node collide across nodes when the pinned clients advance together
            counts = {nd.id: sum(1 for e in cl.events(nd) if e.get("ev") == "propose") for nd in cl.nodes[:n]}
            top = max(counts.values())
            for nd in cl.nodes[:n]:
                c = nd.client(timeout=5.0)
                for _ in range(top - counts[nd.id]):
                    c.cmd("PING")
                c.close()
            bar = threading.Barrier(n)
            threads = [threading.Thread(target=client_loop, args=(cl, rec, c, nops, random.Random(rnd.random()), stop, stats, cl.nodes[c], bar)) for c in range(n)]
        else:
            threads = [threading.Thread(target=client_loop, args=(cl, rec, c, nops, random.Random(rnd.random()), stop, stats)) for c in range(nclients)]
        for t in threads:
            t.start()
        removed = set()
        for f in faults:
            time.sleep(0.6 + rnd.random() * 0.8)
            victim = rnd.choice(cl.nodes[:n])
            if f == "add-node":
                new = cl.nodes[n]
                try:
                    c = cl.nodes[0].client(timeout=5.0)
                    c.cmd("RCONF", "add", str(new.id), "http://127.0.0.1:%d" % new.raft_port)
                    c.close()
                except Exception:
                    pass
                time.sleep(0.5)
                cl.start_node(new, join=True, peers=cl.peers(n + 1))
                stats["faults"].append("RCONF add %d + join" % new.id)
                cl.wait_serving(nodes=[new], timeout=40)
            elif f == "remove-node":
                gone = cl.nodes[n - 1]      # remove the highest-numbered original member
                try:
                    c = cl.nodes[0].client(timeout=5.0)
                    c.cmd("RCONF", "delete", str(gone.id))
                    c.close()
                except Exception:
                    pass
                removed.add(gone.id)
                stats["faults"].append("RCONF delete %d" % gone.id)
                time.sleep(1.0)
            elif f == "kill-restart":
                killed_by_us.add(victim.id)
                cl.kill(victim)
                stats["faults"].append("kill node %d" % victim.id)
                time.sleep(0.8 + rnd.random())
                cl.start_node(victim)
                stats["faults"].append("restart node %d" % victim.id)
            elif f == "pause":
                cl.stop_cont(victim, True)
                stats["faults"].append("SIGSTOP node %d" % victim.id)
                time.sleep(1.5)
                cl.stop_cont(victim, False)
                stats["faults"].append("SIGCONT node %d" % victim.id)
        for t in threads:
            t.join(timeout=120)
        stop.set()
        # unexpected deaths
        members = [nd for nd in cl.nodes if nd.id not in removed and (nd.p is not None)]
        for nd in members:
            if not nd.alive():
                result["violations"].append(({"branch": "cluster.node", "kind": "node-died", "detail": name},
                                             {"scenario": name, "faults": stats["faults"], "log": cl.tail(nd, 2500)},
                                             "node %d died (not killed by the schedule at that moment) in scenario %s: %s" % (nd.id, name, cl.tail(nd, 300))))
                cl.start_node(nd)
        path = os.path.join(d, "hist-%d.ndjson" % idx)

        def wedged(why):
            # without any injected fault a cluster that stops serving was brought down by client load alone: a violation of
            # "concurrent client load never brings a node down"; after faults it is only counted as inconclusive.
            # Either way the history recorded so far is still checked.
            rec.write(path)
            result["path"] = path
            if not faults:
                result["violations"].append(({"branch": "cluster.load", "kind": "unavailable-after-load", "detail": name},
                                             {"scenario": name, "why": why, "stats": dict(stats), "logs": {nd.id: cl.tail(nd, 800) for nd in cl.nodes[:n]}},
                                             "scenario %s (no faults injected): %s - %d commands answered, %d never answered" % (name, why, stats["answered"], stats["unanswered"])))
            else:
                result["inconclusive"] = why
            return result
        if cl.wait_serving(nodes=members, timeout=60) is None:
            return wedged("the cluster does not serve any more after the client load")
        # read every key back through every node (sequential operations at the end of the history)
        for nd in members:
            c = nd.client(timeout=6.0)
            for argv in (["GET", "ctr"], ["GET", "reg"], ["LRANGE", "lst", "0", "-1"], ["SMEMBERS", "st"], ["GET", "app"], ["GET", "once"], ["HGET", "h", "n"], ["GET", "sp"]):
                op = rec.new_op(argv)
                try:
                    rec.done(op, conv(c.cmd(*argv, timeout=6.0)))
                except Exception:
                    return wedged("read-back of %s through node %d got no reply" % (" ".join(argv), nd.id))
            c.close()
        rec.write(path)
        result["path"] = path
        return result
    finally:
        cl.shutdown()


import re
LEADER_RE = re.compile(r"(\d+) became leader at term (\d+)")


def leader_of(cl):
    best = (0, None)
    for nd in cl.nodes:
        for m in LEADER_RE.finditer(cl.tail(nd, 400000)):
            if int(m.group(2)) >= best[0]:
                best = (int(m.group(2)), int(m.group(1)))
    return None if best[1] is None else cl.nodes[best[1] - 1]


def failover(args):
    """The quorum for a burst of writes is {leader L, follower F} (follower P is down); F dies at a crash gate inside
    its Ready loop (verif hook VERIF_CRASH_AT=<stage>#<n>, after stalling there for 80 ms) while acknowledgements are in
    flight; then L is lost for good, F and P are restarted: {F, P} are a quorum and elect a leader. Every acknowledged
    write was on the disks of L and F when it was acknowledged, so it must still be there: the history, with a read-back of every key through F and P, must be
    linearizable. (Raft's 'persist before you answer' is what this scenario leans on.)"""
    name, gate, occ, idx = args
    rnd = random.Random(seed * 1000 + idx)
    cl = cluster.Cluster(3, trace=False).start_all()
    rec = Recorder(idx)
    stats = {"answered": 0, "unanswered": 0, "faults": []}
    result = {"name": name, "stats": stats, "path": None, "violations": [], "inconclusive": None}
    try:
        if cl.wait_serving(timeout=60) is None:
            result["inconclusive"] = "cluster did not start serving"
            return result
        L = leader_of(cl)
        if L is None:
            result["inconclusive"] = "no leader line in the logs"
            return result
        F, P = [nd for nd in cl.nodes if nd is not L]
        cl.kill(F)
        cl.start_node(F, crash_at="%s#%d" % (gate, occ), crash_delay_ms=80, crash_arm="ready:entries")   # only passes that carry entries count; the loop stalls 80 ms at the gate, then the node dies
        stats["faults"].append("restart follower %d with crash gate %s#%d" % (F.id, gate, occ))
        if cl.wait_serving(nodes=[F], timeout=40) is None and F.alive():
            result["inconclusive"] = "follower did not come back"
            return result
        if leader_of(cl) is not L:
            result["inconclusive"] = "leader changed during preparation"
            return result
        cl.kill(P)                      # P is down during the burst (a paused P would still receive the entries from its socket buffers later)
        stats["faults"].append("kill follower %d" % P.id)
        stop = threading.Event()

        def writer(c):
            try:
                conn = L.client(timeout=3.0)
            except Exception:
                return
            for i in range(1500):
                if stop.is_set():
                    break
                op = rec.new_op(["SET", "k%d" % rnd.randrange(16), "c%dv%d" % (c, i)])
                try:
                    rec.done(op, conv(conn.cmd(*op["argv"], timeout=3.0)))
                    stats["answered"] += 1
                except Exception:
                    stats["unanswered"] += 1
                    break
        threads = [threading.Thread(target=writer, args=(c,)) for c in range(4)]
        for t in threads:
            t.start()
        t0 = time.time()
        while F.alive() and time.time() - t0 < 20 and any(t.is_alive() for t in threads):
            time.sleep(0.01)
        died_at_gate = not F.alive()
        cl.stop_cont(L, True)           # the leader may not re-send what it has: freeze it, then lose it
        stop.set()
        stats["faults"].append("follower %d %s; SIGSTOP + kill leader %d" % (F.id, "died at the gate" if died_at_gate else "never reached the gate", L.id))
        if F.alive():
            cl.kill(F)
        cl.start_node(F)
        cl.kill(L)
        cl.start_node(P)
        for t in threads:
            t.join(timeout=30)
        if not died_at_gate:
            result["inconclusive"] = "gate %s#%d not reached under load" % (gate, occ)
        if cl.wait_serving(nodes=[F, P], timeout=60) is None:
            result["inconclusive"] = "the surviving quorum did not elect a leader in 60 s"
            return result
        path = os.path.join(d, "hist-%d.ndjson" % idx)
        for nd in (F, P):
            c = nd.client(timeout=6.0)
            for k in range(16):
                op = rec.new_op(["GET", "k%d" % k])
                try:
                    rec.done(op, conv(c.cmd(*op["argv"], timeout=6.0)))
                except Exception:
                    result["inconclusive"] = "read-back through node %d got no reply" % nd.id
                    return result
            c.close()
        rec.write(path)
        result["path"] = path
        result["inconclusive"] = None if died_at_gate else result["inconclusive"]
        return result
    finally:
        cl.shutdown()


if tier == "quick":
    plan = [("steady", 3, [], 6, 20), ("follower-or-leader-kill", 3, ["kill-restart"], 5, 25), ("pause", 3, ["pause"], 5, 20),
            ("pinned-one-client-per-node", 3, [], 3, 40), ("membership-add", 3, ["add-node"], 5, 40), ("membership-remove", 3, ["remove-node"], 5, 40)]
else:
    plan = [("steady", 3, [], 8, 30), ("steady-5", 5, [], 8, 25), ("pinned-one-client-per-node", 3, [], 3, 60), ("pinned-5", 5, [], 5, 40),
            ("pinned-then-kill", 3, ["kill-restart"], 3, 60), ("membership-add", 3, ["add-node"], 6, 60), ("membership-remove", 3, ["remove-node"], 6, 60),
            ("membership-add-kill", 3, ["add-node", "kill-restart"], 6, 70), ("membership-remove-5", 5, ["remove-node", "kill-restart"], 6, 60)] + [("kill-restart", 3, ["kill-restart"], 5, 30)] * 4 + \
           [("two-kills", 3, ["kill-restart", "kill-restart"], 5, 35)] * 3 + [("pause", 3, ["pause"], 5, 25)] * 2 + \
           [("kill-5", 5, ["kill-restart", "pause", "kill-restart"], 6, 30)] * 2
jobs = [(name, n, faults, nc, nops, i + 1) for i, (name, n, faults, nc, nops) in enumerate(plan)]
gates = [("send", 120), ("walsave", 120)] if tier == "quick" else [(g, o) for g in ("ready", "walsave", "append", "send", "publish", "advance") for o in (60, 200)]
fjobs = [("failover-after-follower-crash-at-%s" % g, g, o, 100 + i) for i, (g, o) in enumerate(gates)]
with concurrent.futures.ThreadPoolExecutor(max_workers=4) as ex:
    fut = [ex.submit(scenario, j) for j in jobs] + [ex.submit(failover, j) for j in fjobs]
    results = [f.result() for f in fut]
hist_paths = []
skipped = 0
for r in results:
    cov["scenarios"].setdefault(r["name"], []).append(r["stats"])
    for sig, replay, what in r["violations"]:
        v.report(sig, replay, what=what)
    if r["inconclusive"]:
        skipped += 1
        print("NOTE: scenario %s inconclusive (%s) - read-back skipped" % (r["name"], r["inconclusive"]))
    if r["path"]:
        hist_paths.append((r["name"], r["path"]))
cov["skipped_inconclusive"] = skipped
with concurrent.futures.ThreadPoolExecutor(max_workers=4) as ex:
    for (name, path), (nonlin, states) in zip(hist_paths, ex.map(lambda p: conc.validate_hist(p[1], timeout=2400), hist_paths)):
        cov["traces_validated_against_impl"] += 1
        cov["states"] += states
        cov["transitions"] += states
        for n in nonlin:
            hist = conc.history_of(path, n["h"])
            v.report({"branch": "cluster.lin." + ks.b2s(n["argv"][0]).lower(), "kind": "non-linearizable", "detail": name},
                     {"scenario": name, "history": hist, "failing_response": n},
                     what="scenario %s: no sequential order explains reply %s of %s (read-backs are per node: a replica that disagrees shows up here)\n  %s" % (
                         name, ks.show_reply(n["got"]), ks.show_argv(n["argv"]), "\n  ".join(hist[-30:])))
        if len(cov["samples"]) < 2:
            cov["samples"].append({"kind": "cluster history (%s)" % name, "events": conc.history_of(path, json.loads(open(path).readline())["h"])[:24]})

# ---- replica agreement for commands whose effect depends on local randomness / clock (recorded findings) ----
cl = cluster.Cluster(3, trace=False).start_all()
try:
    if cl.wait_serving(timeout=60) is not None:
        c = cl.nodes[0].client()
        c.cmd("SADD", "rs", "a", "b", "c", "d", "e", "f", "g", "h")
        for _ in range(3):
            c.cmd("SPOP", "rs")
        c.cmd("XADD", "rx", "*", "f", "v")
        views = {}
        for nd in cl.nodes:
            cc = nd.client()
            views[nd.id] = (sorted(x[1] for x in (cc.cmd("SMEMBERS", "rs")[1] or [])), cc.cmd("XRANGE", "rx", "-", "+"))
            cc.close()
        if len({json.dumps([x.decode("latin1") for x in s]) for s, _ in views.values()}) > 1:
            v.report({"branch": "replica.spop", "kind": "replica-divergence", "detail": ""}, {k: [x.decode("latin1") for x in s] for k, (s, _) in views.items()},
                     what="after SADD rs a..h and 3 x SPOP the replicas hold different sets: %s" % {k: s for k, (s, _) in views.items()})
        if len({repr(x) for _, x in views.values()}) > 1:
            v.report({"branch": "replica.xadd_auto", "kind": "replica-divergence", "detail": ""}, {k: repr(x) for k, (_, x) in views.items()},
                     what="after XADD rx * f v the replicas hold different stream IDs: %s" % {k: x for k, (_, x) in views.items()})
        # relative expiry is re-evaluated when a restarted node replays its log
        c.cmd("SET", "tk", "v", "EX", "2")
        cl.kill(cl.nodes[2])
        time.sleep(3.2)
        cl.start_node(cl.nodes[2])
        if cl.wait_serving(nodes=[cl.nodes[2]], timeout=40) is not None:
            tv = {}
            for nd in cl.nodes:
                cc = nd.client()
                tv[nd.id] = cc.cmd("GET", "tk")[1]
                cc.close()
            if len(set(tv.values())) > 1:
                v.report({"branch": "replica.ttl_replay", "kind": "replica-divergence", "detail": ""}, {k: repr(x) for k, x in tv.items()},
                         what="SET tk v EX 2, node 3 killed, 3 s later restarted: GET tk per node = %s" % tv)
        cov["replica_agreement_probe"] = "done"
finally:
    cl.shutdown()
v.finish(tier, "model_checking", cov, ["consensus is assumed in the model (C15 checks the Raft library); the real runs use the real Raft over rafthttp on localhost",
                                       "faults are produced by kill -9 / restart and SIGSTOP/SIGCONT of node processes (no network shim): loss and delay arise only from those",
                                       "commands that received no reply may or may not have taken effect (any outcome allowed by TraceLin)",
                                       "a scenario whose cluster does not become ready is skipped and counted, never reported"])
