#!/usr/bin/env python3
"""C01 strings + generic keys: B1 tours of MC_String (keys k/K/l, values incl. CR LF and empty) and MC_StringNum
(64-bit / exact-decimal arithmetic) + B2 random programmes of the string and keys families (TraceKs.tla)."""
import common, ks
tier = common.tier_arg()
OTHER = ("lpush", "rpush", "lpushx", "rpushx", "lpop", "rpop", "llen", "lindex", "lrange", "lset", "lrem", "ltrim", "lpos", "lmove",
         "hset", "hsetnx", "hget", "hmget", "hgetall", "hkeys", "hvals", "hlen", "hexists", "hstrlen", "hdel", "hincrby", "hincrbyfloat", "hrandfield",
         "sadd", "srem", "sismember", "scard", "smembers", "smove", "spop", "srandmember", "sunion", "sinter", "sdiff", "sunionstore", "sinterstore", "sdiffstore",
         "zadd", "zrem", "zrange", "zrank", "xadd", "xrange")


def real_clock(v, cov, tier, seed):
    """SET .. EX / PX / EXAT / KEEPTTL, SETEX and friends over real seconds: random ttl programmes and every pair of a
    far and a near deadline (replaced deadlines), probed with the string commands, which have no lazy expiry check."""
    r = ks.run_ttl_random(30 if tier == "quick" else 600, seed)
    cov["real_clock_programmes"] = r["programmes"]
    cov["traces_validated_against_impl"] += r["programmes"]
    for m, path in r["mismatches"]:
        sig = ks.signature(m)
        if sig["branch"].split(".")[0] in OTHER:
            continue
        v.report(sig, ks.replay_of(m, path), what="real clock:\n" + ks.explain(m, path, context=10))


ks.family_check(
    "C01", tier,
    b1_instances=[("MC_String", "MC_String.cfg" if tier == "quick" else "MC_String_thorough.cfg"), ("MC_String", "MC_StringNum.cfg")],
    b2_families=["string", "keys"],
    level_text="", assumptions=[
        "reference semantics = Redis command reference as transcribed in spec/KsString.tla, KsKeys.tla, Glob.tla",
        "ambiguity sets of DESIGN.md 2.4 (SET/MSET/SETEX over another type, numeric lexical corners, non-positive expiry, error precedence)",
        "INCRBYFLOAT on the exactly-representable decimal subset; operands longer than 15 bytes are unmodelled",
        "time at one-second granularity (deadline windows)"],
    b2_progs=400 if tier == "quick" else 6000,
    label_filter=lambda b: b.split(".")[0] not in OTHER, extra=lambda v, cov, tier, seed: real_clock(v, cov, tier, seed))
