#!/usr/bin/env python3
"""C01 strings + generic keys: B1 tours of MC_String (keys k/K/l, values incl. CR LF and empty) and MC_StringNum
(64-bit / exact-decimal arithmetic) + B2 random programmes of the string and keys families (TraceKs.tla)."""
import common, ks
tier = common.tier_arg()
OTHER = ("lpush", "rpush", "lpushx", "rpushx", "lpop", "rpop", "llen", "lindex", "lrange", "lset", "lrem", "ltrim", "lpos", "lmove",
         "hset", "hsetnx", "hget", "hmget", "hgetall", "hkeys", "hvals", "hlen", "hexists", "hstrlen", "hdel", "hincrby", "hincrbyfloat", "hrandfield",
         "sadd", "srem", "sismember", "scard", "smembers", "smove", "spop", "srandmember", "sunion", "sinter", "sdiff", "sunionstore", "sinterstore", "sdiffstore",
         "zadd", "zrem", "zrange", "zrank", "xadd", "xrange")
ks.family_check(
    "C01", tier,
    b1_instances=[("MC_String", "MC_String.cfg" if tier == "quick" else "MC_String_thorough.cfg"), ("MC_String", "MC_StringNum.cfg")],
    b2_families=["string", "keys"],
    level_text="", assumptions=[
        "reference semantics = Redis command reference as transcribed in spec/KsString.tla, KsKeys.tla, Glob.tla",
        "ambiguity sets of DESIGN.md 2.4 (SET/MSET/SETEX over another type, numeric lexical corners, non-positive expiry, error precedence)",
        "INCRBYFLOAT on the exactly-representable decimal subset; operands longer than 15 bytes are unmodelled",
        "time at one-second granularity (deadline windows)"],
    b2_progs=400 if tier == "quick" else 6000,
    label_filter=lambda b: b.split(".")[0] not in OTHER)
