#!/usr/bin/env python3
"""C11 sets: B1 tours of MC_Set + B2 random set programmes (TraceKs.tla)."""
import common, ks, sched
tier = common.tier_arg()
LABELS = ('sadd', 'srem', 'sismember', 'scard', 'smembers', 'smove', 'spop', 'srandmember', 'sunion', 'sinter', 'sdiff', 'sunionstore', 'sinterstore', 'sdiffstore')
ks.family_check(
    "C11", tier,
    b1_instances=[('MC_Set', 'MC_Set.cfg')] if tier == "quick" else [('MC_Set', 'MC_Set_thorough.cfg')],
    b2_families=['set'],
    level_text="", assumptions=['reference semantics = Redis command reference as transcribed in spec/KsSet.tla', 'STORE onto a destination of another type may overwrite or reply WRONGTYPE (DESIGN.md 2.4)', 'random commands: every legal reply is enumerated in B1 and accepted in B2'],
    b2_progs=400 if tier == "quick" else 6000,
    label_filter=lambda b: b.split(".")[0] in LABELS, extra=sched.family_extra("C11", "set"))
