#!/usr/bin/env python3
"""C06 time-to-live: spec/MC_Expire.tla (keyspace model with explicit time and Tick) is model-checked by TLC for the
clauses of C06; its transitions, Tick included, are replayed on the REAL clock by harness/cmd/ttltour (a model Tick =
sleep to the next wall-clock second + 30 ms; thousands of programmes run concurrently, each on its own server), plus
seeded random ttl programmes with sub-second sleeps; every recorded command (with the unix second before and after
the call) is validated by TraceKs.tla, whose deadline windows encode the one-second granularity of the property."""
import concurrent.futures, json, os, subprocess
import common, ks

tier = common.tier_arg()
v = common.Verdict("C06")
seed = common.seed()
cfgs = ["MC_Expire.cfg"] if tier == "quick" else ["MC_Expire_thoroughA.cfg", "MC_Expire_thoroughB.cfg"]
d = common.scratch("c06-")
tool = ks.build_tool("ttltour")
rounds = 1 if tier == "quick" else 2
cov = {"states": 0, "transitions": 0, "traces_validated_against_impl": 0, "samples": [], "events": 0,
       "straddling_commands": 0, "max_ticks": 0, "rounds": rounds, "instances": {}}
labels = set()
for ci, cfg in enumerate(cfgs):
    table = os.path.join(d, "edges-%d.txt" % ci)
    # (the in-memory state queue: TLC's disk queue cannot serialise some nested function values of the keyspace state)
    res = common.run_tlc("MC_Expire", cfg=cfg, workers=16, heap="12g", timeout=3000, stdout_path=table, jvm=("-Dtlc2.tool.queue.IStateQueue=MemStateQueue",))
    common.tlc_ok(res, cfg)   # the C06 clauses hold on the model (NotBefore, GoneAfter, NoTtlNeverExpires, ExpireOptions, ...)
    cov["states"] += res.distinct
    cov["transitions"] += res.generated
    cov["instances"][cfg] = {"states": res.distinct, "transitions": res.generated, "tlc_wall_s": round(res.wall, 1)}
    for rnd in range(rounds):
        trace = os.path.join(d, "ttl-%d-%d.ndjson" % (ci, rnd))
        p = subprocess.run([tool, "-edges", "-perclass", "2" if tier == "quick" else "6", "-random", "200" if tier == "quick" else "1000",
                            "-seed", str(seed * 10 + rnd + 100 * ci), "-out", trace], stdin=open(table), stdout=subprocess.PIPE, stderr=subprocess.PIPE, text=True, timeout=1200)
        if p.returncode != 0:
            common.die_infra("ttltour failed: " + p.stderr[-2000:])
        summ = json.loads([l for l in p.stdout.splitlines() if l.startswith("SUMMARY ")][0][8:])
        cov["traces_validated_against_impl"] += summ["programmes"]
        cov["events"] += summ["events"]
        cov["straddling_commands"] += summ["straddling_commands"]
        cov["max_ticks"] = max(cov["max_ticks"], summ["max_ticks"])
        # shard the trace by programme
        nsh = 8
        shards = [open(os.path.join(d, "shard-%d-%d-%d.ndjson" % (ci, rnd, i)), "w") for i in range(nsh)]
        cur = 0
        for line in open(trace):
            if line.startswith('{"ev":"reset"'):
                cur = (cur + 1) % nsh
            shards[cur].write(line)
        for sh in shards:
            sh.close()
        paths = [sh.name for sh in shards if os.path.getsize(sh.name) > 0]
        with concurrent.futures.ThreadPoolExecutor(max_workers=8) as ex:
            for path, r in zip(paths, ex.map(ks.validate_trace, paths)):
                labels |= r["labels"]
                for m in r["mismatches"]:
                    sig = ks.signature(m)
                    v.report(sig, ks.replay_of(m, path), what="real clock, second %s:\n%s" % (m.get("line"), ks.explain(m, path, context=10)))
                if not cov["samples"]:
                    tr = ks.load_trace(path)
                    first = [e for e in tr if e["ev"] == "cmd"][:12]
                    cov["samples"].append({"kind": "real-clock programme", "commands": ["t=%d %s -> %s" % (e["now"], ks.show_argv(e["argv"]), ks.show_reply(e["reply"])) for e in first]})
    os.remove(table)
# ---- lifecycle programmes (in process, long deadlines): a key that ceases to exist - DEL, or an aggregate emptied by any
# draining command - loses its deadline; re-created keys start without one; structural check (no deadline recorded for a
# missing key) after every command
lc = ks.run_b2("lifecycle", 240 if tier == "quick" else 4000, 60, seed, nproc=8)
cov["traces_validated_against_impl"] += lc["programmes"]
cov["events"] += lc["events"]
cov["lifecycle_programmes"] = lc["programmes"]
labels |= lc["labels"]
for m, path in lc["mismatches"]:
    v.report(ks.signature(m), ks.replay_of(m, path), what="lifecycle programme:\n" + ks.explain(m, path, context=10))
# ---- expiry under load (harness/cmd/busyttl): deadlines pass while reader goroutines keep the keys' lock stripes busy; one
# full second after the deadline second has ended every key must be invisible to the commands that have no lazy check too
bt = ks.build_tool("busyttl")
bp = subprocess.run([bt, "-seed", str(seed), "-rounds", "2" if tier == "quick" else "12"], stdout=subprocess.PIPE, stderr=subprocess.PIPE, text=True, timeout=600)
if bp.returncode != 0:
    if "fatal error" in bp.stderr or "panic" in bp.stderr:
        v.report({"branch": "busy.process", "kind": "process-death", "detail": bp.stderr.strip().splitlines()[0][:80]}, {"stderr": bp.stderr[-1500:]},
                 what="the process died while keys expired under read load: " + bp.stderr.strip().splitlines()[0][:200])
    else:
        common.die_infra("busyttl failed: " + bp.stderr[-1500:])
for line in bp.stdout.splitlines():
    if line.startswith("SUMMARY "):
        cov["expiry_under_load"] = json.loads(line[8:])
    elif line.startswith("{"):
        pr = json.loads(line)
        v.report({"branch": "busy." + pr["type"], "kind": pr["kind"], "detail": ""}, pr,
                 what="expiry under read load: %s key %s still visible: %s" % (pr["type"], pr["key"], pr["detail"]))
cov["labels_exercised"] = len(labels)
# ---- deadline commands of two or three clients on one key under every TLC-enumerated schedule (lib/sched.py, family "deadline"):
# the options of EXPIRE are conditions on the deadline the key has when the command takes effect, not when it arrives
import sched
sr = sched.run("single", tier, seed, maxpre=2 if tier == "quick" else 3, maxpre3=1 if tier == "quick" else 2, families=["deadline"])
sched.decide(sr, v, "C06", cov)
v.finish(tier, "model_checking", cov, ["real clock; one-second granularity: a key is certainly visible before its deadline second, certainly gone after it, either during it (deadline windows of KsCore.tla)",
                                       "deadlines of 1-3 s; TTL-setting commands are never issued in the last 200 ms of a second; no statement about clock jumps",
                                       "TTL replies may differ by one from the exact remaining seconds (rounding at one-second granularity)"])
