#!/usr/bin/env python3
"""C20 numbered databases: spec/Select.tla checked by TLC (Isolation, SelectionIsPrivate, RejectKeeps) for
1, 2 and 16 databases; every transition replayed by harness/cmd/seltour on one real Manager shared by several
Manager.Handle connections (net.Pipe), comparing replies and the contents of every database; then a few model
behaviours are replayed over TCP against the real server binary."""
import concurrent.futures, json, os, random, subprocess
import common, ks, server

tier = common.tier_arg()
v = common.Verdict("C20")
tool = ks.build_tool("seltour")
cov = {"states": 0, "transitions": 0, "traces_validated_against_impl": 0, "samples": [], "instances": {}}
plan = [("MC_Select1.cfg", 1, 0), ("MC_Select2.cfg", 2, 0), ("MC_Select16.cfg", 16, 0 if tier == "thorough" else 6)]
edge_files = {}
for cfg, ndb, sample in plan:
    d = common.scratch("c20-")
    table = os.path.join(d, "edges.txt")
    res = common.run_tlc("Select", cfg=cfg, workers=16, heap="4g", timeout=900, stdout_path=table)
    common.tlc_ok(res, cfg)
    p = subprocess.run([tool, "-ndb", str(ndb), "-conns", "2", "-sample", str(sample)], stdin=open(table), stdout=subprocess.PIPE,
                       stderr=subprocess.PIPE, text=True, timeout=1500)
    if p.returncode != 0:
        common.die_infra("seltour failed: " + p.stderr[-2000:])
    summ = None
    for line in p.stdout.splitlines():
        if line.startswith("SUMMARY "):
            summ = json.loads(line[8:])
        elif line.strip():
            f = json.loads(line)
            v.report({"branch": f["branch"], "kind": f["kind"], "detail": "ndb=%d %s" % (ndb, f["detail"] if f["kind"] == "reply" else "")},
                     {"instance": cfg, "path": f["path"], "cmd": f["cmd"], "got": f["got"], "detail": f["detail"]},
                     what="%s: after %s, %s -> %s %s" % (cfg, f["path"], f["cmd"], ks.show_reply(f["got"]), f["detail"]))
    cov["states"] += res.distinct
    cov["transitions"] += res.generated
    cov["traces_validated_against_impl"] += summ["edges_tested"]
    cov["instances"][cfg] = dict(summ, tlc_states=res.distinct, tlc_transitions=res.generated, tlc_wall_s=round(res.wall, 1))
    edge_files[ndb] = table

# ---- TCP: random walks of the 2-database model on the real binary with 3 real connections ----
seed = common.seed()
rnd = random.Random(seed)
edges = {}
init = None
for line in open(edge_files[2]):
    if not line.startswith('"'):
        continue
    s = json.loads(line)
    if s.startswith("INIT "):
        init = s[5:]
    elif s.startswith("EDGE "):
        e = json.loads(s[5:])
        edges.setdefault(json.dumps(e["s"], separators=(",", ":")), []).append(e)
norm = lambda x: json.dumps(json.loads(x) if isinstance(x, str) else x, separators=(",", ":"))
walks = 30 if tier == "quick" else 300
srv = server.Server(databases=2)
try:
    for w in range(walks):
        cs = [srv.client(), srv.client()]
        # each walk starts from empty databases
        for dbi in (0, 1):
            cs[0].cmd("SELECT", str(dbi)); cs[0].cmd("DEL", "k")
        cs[0].cmd("SELECT", "0")
        cur = norm(init)
        trace = []
        for stepi in range(12):
            outs = edges.get(cur)
            if not outs:
                break
            e = rnd.choice(outs)
            same = [x for x in outs if x["conn"] == e["conn"] and x["c"] == e["c"]]
            argv = [bytes(a) for a in e["c"]]
            rep = cs[e["conn"] - 1].cmd(*argv, timeout=3.0)
            trace.append("c%d: %s -> %r" % (e["conn"], ks.show_argv(e["c"]), rep))
            def conv(r):
                t, val = r
                if t in ("+", "$"):
                    return {"k": "nil", "v": [], "e": "", "a": []} if val is None else {"k": "str", "v": list(val), "e": "", "a": []}
                if t == ":":
                    return {"k": "int", "v": list(str(val).encode()), "e": "", "a": []}
                if t == "-":
                    return {"k": "err", "v": [], "e": "WRONGTYPE" if val.startswith(b"WRONGTYPE") else "OTHER", "a": []}
                return {"k": "nil", "v": [], "e": "", "a": []} if val is None else {"k": "arr", "v": [], "e": "", "a": [conv(x) for x in val]}
            got = conv(rep)
            def match(pat, g):
                if pat["k"] == "uarr":
                    return g["k"] == "arr" and sorted(json.dumps(x["v"]) for x in pat["a"]) == sorted(json.dumps(x["v"]) for x in g["a"])
                return pat["k"] == g["k"] and pat["v"] == g["v"] and pat["e"] == g["e"]
            ok = [x for x in same if match(x["r"], got)]
            if not ok:
                v.report({"branch": same[0]["b"], "kind": "reply-tcp", "detail": "ndb=2"}, {"walk": trace},
                         what="TCP walk: %s (model: %s)" % (trace[-1], [ks.show_reply(x["r"]) for x in same]))
                break
            cur = norm(ok[0]["t"])
        cov["traces_validated_against_impl"] += 1
        if w == 0:
            cov["samples"].append({"kind": "TCP walk on the real binary (2 databases, 2 connections)", "steps": trace})
        for c in cs:
            c.close()
finally:
    srv.stop()
cov["tcp_walks"] = walks
# ---- concurrent connections: SELECT (in half of the histories the first-ever SELECT of one index by all connections at
# once) mixed with single-key commands; selection tracked per connection; the whole server must be linearizable as ONE
# keyspace over the names d<i>:<key> (TraceLin.tla), read back sequentially through a fresh connection
import conc
tool = ks.build_tool("selconc")
dsel = common.scratch("c20conc-")
nhist = 240 if tier == "quick" else 4000
nproc = 8
def _one(i):
    path = os.path.join(dsel, "sel-%d.ndjson" % i)
    p = subprocess.run([tool, "-seed", str(seed * 100 + i), "-hist", str(nhist // nproc), "-out", path], stdout=subprocess.PIPE, stderr=subprocess.PIPE, text=True, timeout=1500)
    return path, p
cov["concurrent"] = {"histories": 0, "operations": 0, "selects": 0, "histories_with_concurrent_first_select": 0}
with concurrent.futures.ThreadPoolExecutor(max_workers=nproc) as ex:
    for path, p in ex.map(_one, range(nproc)):
        summ = None
        for line in p.stdout.splitlines():
            if line.startswith("SUMMARY "):
                summ = json.loads(line[8:])
            elif line.startswith("{"):
                a = json.loads(line)
                v.report({"branch": "select.concurrent", "kind": a["kind"], "detail": ""}, a, what="concurrent connections, history %s: %s" % (a["h"], a["detail"]))
        if p.returncode != 0 or summ is None:
            first = [l for l in p.stderr.splitlines() if l.strip()][:1]
            v.report({"branch": "select.concurrent", "kind": "process-death", "detail": (first[0] if first else "")[:80]}, {"stderr": p.stderr[-3000:]},
                     what="the server process died under concurrent SELECT + commands: %s" % (first[0] if first else p.returncode))
            continue
        for k in cov["concurrent"]:
            cov["concurrent"][k] += summ[k]
        nonlin, _ = conc.validate_hist(path)
        for n in nonlin:
            v.report({"branch": "select.concurrent", "kind": "nonlinearizable", "detail": ""}, {"history": conc.history_of(path, n["h"]), "file": path},
                     what="connections in the same database disagree (history %s not linearizable over d<i>:<key>):\n  %s" % (n["h"], "\n  ".join(conc.history_of(path, n["h"])[:40])))
# ---- the configured count is what the configuration file says, whatever the file looks like (line order, no newline after
# the last line, blank lines, Windows line ends are not tried): SELECT accepts exactly 0..N-1
cfgshape = {"servers": 0, "selects": 0}
for n_db, conf in ((4, "host 127.0.0.1\nport {port}\nlogdir {dir}\nloglevel panic\nshardnum 16\ndatabases 4"),          # no trailing newline
                   (3, "databases 3\nhost 127.0.0.1\nport {port}\nlogdir {dir}\nloglevel panic\nshardnum 16\n"),
                   (5, "host 127.0.0.1\nport {port}\n\nlogdir {dir}\nloglevel panic\ndatabases 5\nshardnum 16"),
                   (20, "host 127.0.0.1\nport {port}\nlogdir {dir}\nloglevel panic\nshardnum 16\ndatabases 20")):
    sv = server.Server(conf_text=conf)
    try:
        cfgshape["servers"] += 1
        cc = sv.client(timeout=10.0)
        cc.cmd("SET", "shape", "db0")
        bad = None
        for idx in list(range(0, n_db + 3)) + [15, 16, 19, 20, 21]:
            r = cc.cmd("SELECT", str(idx), timeout=10.0)
            cfgshape["selects"] += 1
            if (r[0] == "+") != (idx < n_db):
                bad = "SELECT %d -> %r with %d databases configured" % (idx, r, n_db)
                break
        cc.close()
        if bad:
            v.report({"branch": "select.configured", "kind": "wrong-range", "detail": str(n_db)}, {"redis_conf": conf, "problem": bad},
                     what="server started from a configuration file with `databases %d` (%s): %s" % (n_db, "no newline after the last line" if not conf.endswith("\n") else "line in the middle", bad))
    finally:
        sv.stop()
cov["configuration_file_shapes"] = cfgshape
# ---- cluster mode: whatever the node's configuration file says about databases, selection stays per connection and the
# databases isolated (a cluster node normally has ONE database and rejects SELECT 1; if it accepts it, everything C20 says
# must hold through the replicated path as well)
import cluster
clsel = {"runs": 0, "select_accepted": 0}
for extra in ({}, {"Databases": 4}, {"Databases": 16}):
    clu = cluster.Cluster(1, trace=False, extra_conf=extra).start_all()
    try:
        if clu.wait_serving(timeout=60) is None:
            print("NOTE: single-node cluster did not start serving (skipped)")
            continue
        clsel["runs"] += 1
        nd = clu.nodes[0]
        A, B = nd.client(timeout=10.0), nd.client(timeout=10.0)
        steps = []

        def do(name, c, *argv):
            r = c.cmd(*argv, timeout=10.0)
            steps.append("%s: %s -> %r" % (name, " ".join(argv), r))
            return r

        do("B", B, "SET", "ck", "vb")
        r0 = do("A", A, "SELECT", "0")
        r1 = do("A", A, "SELECT", "1")
        bad = None
        if r0[0] != "+":
            bad = "SELECT 0 is rejected"
        elif r1[0] == "+":
            clsel["select_accepted"] += 1
            ga = do("A", A, "GET", "ck")
            gb = do("B", B, "GET", "ck")
            do("A", A, "SET", "ck", "va")
            gb2 = do("B", B, "GET", "ck")
            C = nd.client(timeout=10.0)
            gc = do("C (new connection)", C, "GET", "ck")
            C.close()
            if ga != ("$", None):
                bad = "after A selected database 1 it still sees database 0's key"
            elif gb != ("$", b"vb") or gb2 != ("$", b"vb"):
                bad = "A's SELECT 1 changed what connection B (which never selected) reads or A's write in database 1 is visible to B"
            elif gc != ("$", b"vb"):
                bad = "a new connection does not start in database 0"
        else:
            ga = do("A", A, "GET", "ck")
            if ga != ("$", b"vb"):
                bad = "a rejected SELECT changed the selection"
        A.close()
        B.close()
        if bad:
            v.report({"branch": "select.cluster", "kind": "selection-leak", "detail": json.dumps(extra)}, {"cluster_json_extra": extra, "steps": steps},
                     what="cluster node started with %s in its cluster configuration: %s\n  %s" % (json.dumps(extra), bad, "\n  ".join(steps)))
    finally:
        clu.shutdown()
cov["cluster_mode_select"] = clsel
cov["traces_validated_against_impl"] += cov["concurrent"]["histories"]
cov["samples"].append({"kind": "B1 edge", "example": "after c1: SELECT 1, c2: SET k a must write database 0 (c2 never selected)"})
v.finish(tier, "model_checking", cov, ["spec/Select.tla over Keyspace.Exec for the data commands", "databases in {1, 2, 16}; 2 connections in B1",
                                       "the 16-database instance is label-sampled in the quick tier (every state is still reached)"])
