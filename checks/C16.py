#!/usr/bin/env python3
"""C16 - Raft WAL and snapshot files recover to a consistent prefix after any crash; corrupted bytes are
never returned as valid (DESIGN.md section C16).

  python3 checks/C16.py quick|thorough      (cwd=/verif, PYTHONPATH=/verif/lib, env VERIF_SEED)

What runs:
  1. TLC on spec/Wal.tla (MC_Wal instances) and spec/Snap.tla: the model's own properties
     (RecoveredIsPrefix, TornTailRepairable, AppendAfterRecoveryIsClean, EntriesContiguous, SnapFallback);
     a failure there is a bug of the machinery -> exit 2.  Two mutated instances (ZeroToEndOn=FALSE,
     TornShift=0) must FAIL, otherwise the model has lost its teeth -> exit 2.
  2. Binding B1: every terminal state of the model is emitted as a scenario (operations with record sizes,
     crash point, lost sectors, optional reopen+append+second crash, predicted outcome); walsim replays each
     on real files through the real wal package.
  3. Seeded random crash scenarios with arbitrary payload sizes (contract only).
  4. All-offset single-byte corruption (xor 0x01, 0x80, 0xff) of WAL images and of snapshot file sets.
Verdict: from the contract evaluated on what the REAL readers returned (exit 1 + VIOLATION line);
model/real disagreements that do not break the contract are printed as DIVERGENCE and counted.
"""
import collections, glob, hashlib, json, os, re, resource, shutil, subprocess, sys, threading, time

sys.path.insert(0, os.path.join(os.path.dirname(os.path.abspath(__file__)), "..", "lib"))
import common  # noqa: E402

PROP = "C16"

# Known findings live in /verif/known_findings.json (matched by common.Verdict: C16-F01 record type outside the
# CRC, C16-F02 stale .tmp reused after a crash inside cut()).  TODO-known: findings not yet moved there by the
# lead; same signature format (branch | kind | detail, regexes).  Empty when everything has been moved.
TODO_KNOWN = []


STD_INV = "TypeOK RecoveredIsPrefix TornTailRepairable AppendAfterRecoveryIsClean EntriesContiguous"
# with the crash inside cut() the as-built model is NOT always recoverable (known finding C16-F02); the instance
# then checks that this is the only way recovery fails, and that it always fails then
# single-word corruption: as built the only accepted non-prefix result comes from the unprotected type byte (C16-F01)
COR_INV = "TypeOK RecoveredIsPrefix TornTailRepairable EntriesContiguous CorruptAcceptedOnlyByTypeFlip"
CUT_INV = "TypeOK RecoveredIsPrefix AppendAfterRecoveryIsClean EntriesContiguous FailuresOnlyFromStaleTmp StaleTmpAlwaysFatal"


def cfg_text(**kw):
    d = dict(SectorWords=64, SegWords=256, MetaWords=3, MaxOps=2, MaxEnts=2, MaxLost=6, WithSnap="TRUE",
             WithRewrite="TRUE", WithAppend="FALSE", WithCutCrash="FALSE", StaleTmpAsBuilt="TRUE",
             WithCorrupt="FALSE", TypeInCrc="FALSE", ZeroToEndOn="TRUE", TornShift=1, EmitOn="TRUE", EntSizes="EntSizesQ", AppSizes="AppSizesQ")
    d.update(kw)
    inv = d.pop("INV", STD_INV)
    s = "SPECIFICATION Spec\nCONSTANTS\n"
    for k, v in d.items():
        s += ("  %s <- %s\n" if k in ("EntSizes", "AppSizes") else "  %s = %s\n") % (k, v)
    s += "CONSTRAINT Bound\nACTION_CONSTRAINT Emit\n"
    s += "INVARIANTS " + inv + "\n"
    return s


def instances(tier):
    """(name, cfg keywords, must_fail)"""
    q = [
        ("q", dict(MaxOps=2, MaxEnts=2, EntSizes="EntSizes3", WithRewrite="FALSE"), False),
        ("a", dict(MaxOps=1, MaxEnts=2, WithAppend="TRUE"), False),
        ("n", dict(MaxOps=2, MaxEnts=2, MetaWords=2, SegWords=128, EntSizes="EntSizes2N"), False),
        ("c", dict(MaxOps=2, MaxEnts=1, SegWords=128, EntSizes="EntSizes1N", WithSnap="FALSE", WithAppend="TRUE", WithCutCrash="TRUE", INV=CUT_INV), False),
        ("k", dict(MaxOps=2, MaxEnts=1, EntSizes="EntSizes2", WithCorrupt="TRUE", INV=COR_INV), False),
        ("xz", dict(MaxOps=1, WithAppend="TRUE", ZeroToEndOn="FALSE", EmitOn="FALSE"), True),
        ("xt", dict(MaxOps=1, TornShift=0, EmitOn="FALSE"), True),
        ("xc", dict(MaxOps=2, MaxEnts=1, SegWords=128, EntSizes="EntSizes1N", WithSnap="FALSE", WithRewrite="FALSE", WithAppend="TRUE",
                    WithCutCrash="TRUE", EmitOn="FALSE"), True),
        ("xk", dict(MaxOps=1, MaxEnts=1, EntSizes="EntSizes2", WithCorrupt="TRUE", EmitOn="FALSE", INV="TypeOK CorruptionNeverAccepted"), True),
    ]
    if tier == "quick":
        return q
    return [
        ("q", dict(MaxOps=2, MaxEnts=2), False),
        ("a", dict(MaxOps=2, MaxEnts=2, WithAppend="TRUE", EntSizes="EntSizes2", WithRewrite="FALSE", WithSnap="FALSE"), False),
        ("n", dict(MaxOps=2, MaxEnts=2, MetaWords=2, SegWords=128, EntSizes="EntSizesN"), False),
        ("d", dict(MaxOps=3, MaxEnts=1, EntSizes="EntSizesD"), False),
        ("c", dict(MaxOps=2, MaxEnts=1, SegWords=128, EntSizes="EntSizes2N", WithAppend="TRUE", WithCutCrash="TRUE", INV=CUT_INV), False),
        ("fc", dict(MaxOps=2, MaxEnts=1, SegWords=128, EntSizes="EntSizes2N", WithAppend="TRUE", WithCutCrash="TRUE",
                    StaleTmpAsBuilt="FALSE", EmitOn="FALSE"), False),
        ("k", dict(MaxOps=2, MaxEnts=2, EntSizes="EntSizes2", WithCorrupt="TRUE", INV=COR_INV), False),
        ("fk", dict(MaxOps=2, MaxEnts=1, EntSizes="EntSizes2", WithCorrupt="TRUE", TypeInCrc="TRUE", EmitOn="FALSE",
                    INV="TypeOK CorruptionNeverAccepted"), False),
        ("xz", dict(MaxOps=1, WithAppend="TRUE", ZeroToEndOn="FALSE", EmitOn="FALSE"), True),
        ("xt", dict(MaxOps=1, TornShift=0, EmitOn="FALSE"), True),
        ("xc", dict(MaxOps=2, MaxEnts=1, SegWords=128, EntSizes="EntSizes1N", WithSnap="FALSE", WithRewrite="FALSE", WithAppend="TRUE",
                    WithCutCrash="TRUE", EmitOn="FALSE"), True),
        ("xk", dict(MaxOps=1, MaxEnts=1, EntSizes="EntSizes2", WithCorrupt="TRUE", EmitOn="FALSE", INV="TypeOK CorruptionNeverAccepted"), True),
    ]


class TlcJob(threading.Thread):
    def __init__(self, name, kw, must_fail, root, workers, heap, timeout):
        super().__init__()
        self.name_, self.kw, self.must_fail = name, kw, must_fail
        self.wd = os.path.join(root, "tlc-" + name)
        os.makedirs(self.wd)
        self.workers, self.heap, self.timeout = workers, heap, timeout
        self.res = None
        self.raw = os.path.join(self.wd, "emit.raw")
        self.scen = os.path.join(root, "scen-%s.ndjson" % name)
        self.count = 0
        self.nontrivial = 0
        self.labels = collections.Counter()
        self.exc = None

    def note(self, d):
        """action / branch labels of the model exercised by this scenario (stands in for `-coverage 1`, which
        exhausts the heap on this spec before the first state)"""
        L = self.labels
        for o in d["ops"]:
            if o["k"] == "snap":
                L["op.SaveSnapshot"] += 1
                continue
            hk = "none" if o["hs"] == [0, 0, 0] else "hs"
            L["op.Save.%s.ents=%d" % (hk, len(o["ws"]))] += 1
            if o["cut"]:
                L["op.Save.cut"] += 1
            if not o["sync"]:
                L["op.Save.buffered(MustSync=false)"] += 1
        saves = [o for o in d["ops"] if o["k"] == "save" and o["ws"]]
        for i in range(1, len(saves)):
            if saves[i]["first"] < saves[i - 1]["first"] + len(saves[i - 1]["ws"]):
                L["op.Save.rewrite-uncommitted-tail"] += 1
        if d.get("cor", {}).get("kind", "none") != "none":
            L["Corrupt." + d["cor"]["kind"]] += 1
            L["Corrupt.%s" % ("rejected" if not d["p1"]["ok"] else "accepted")] += 1
            if d.get("nonprefix"):
                L["Corrupt.type.accepted-nonprefix(C16-F01)"] += 1
            return
        L["crash1.lost=%s" % ("0" if not d["lost"] else "some")] += 1
        if d["tail"] > 1:
            L["crash1.segments>1"] += 1
        p = d["p1"]
        L["recover1.first=%s" % p["first"]] += 1
        if p["rep"]:
            L["recover1.Repair"] += 1
        if p["nacc"] > d["dur"]:
            L["recover1.kept-unsynced-records"] += 1
        if p["nacc"] == d["dur"] and d["lost"]:
            L["recover1.exactly-durable"] += 1
        if d.get("cutcrash"):
            L["CrashInCut"] += 1
            if d["two"] and not d["p2"]["ok"]:
                L["CrashInCut.stale-tmp-fatal(C16-F02)"] += 1
        if d["two"] and d["app"] and d["app"][0]["cut"]:
            L["Append2Cut"] += 1
        if d["two"]:
            L["Append2"] += 1
            L["crash2.lost=%s" % ("0" if not d["lost2"] else "some")] += 1
            L["recover2.first=%s" % d["p2"]["first"]] += 1
            if d["p2"]["rep"]:
                L["recover2.Repair"] += 1

    def run(self):
        try:
            for f in os.listdir(common.SPEC):
                if f.startswith(("Wal", "MC_Wal", "Snap", "MC_Snap")) and f.endswith(".tla"):
                    shutil.copy(os.path.join(common.SPEC, f), self.wd)
            open(os.path.join(self.wd, "gen.cfg"), "w").write(cfg_text(**self.kw))
            self.res = run_tlc_local("MC_Wal", "gen.cfg", self.wd, self.workers, self.heap, self.timeout, self.raw)
            if os.path.exists(self.raw):
                seen = set()
                with open(self.raw) as f, open(self.scen, "w") as o:
                    for line in f:
                        try:
                            d = json.loads(json.loads(line))
                        except ValueError:
                            continue
                        key = hashlib.sha1(json.dumps(d, sort_keys=True).encode()).digest()
                        if key in seen:
                            continue
                        seen.add(key)
                        d["id"] = "%s%d" % (self.name_, self.count)
                        self.count += 1
                        if d.get("lost") or d.get("lost2") or d.get("cor", {}).get("kind", "none") != "none":
                            self.nontrivial += 1
                        self.note(d)
                        o.write(json.dumps(d) + "\n")
                os.remove(self.raw)
        except Exception as e:  # reported by the main thread
            self.exc = e


def run_tlc_local(module, cfg, wd, workers, heap, timeout, raw_path):
    """Like common.run_tlc but without copying the whole spec directory (other properties' modules may be in
    flux) - same JVM flags, same parsing of the result."""
    res = common.TLCResult()
    meta = os.path.join(wd, "meta")
    cmd = ["java", "-Xmx" + heap, "-Xss64m", "-XX:+UseParallelGC", "-XX:ParallelGCThreads=%d" % max(1, min(4, workers // 2)),
           "-XX:CICompilerCount=2", "-cp", common.TLA_CP, "tlc2.TLC",
           "-workers", str(workers), "-metadir", meta, "-noGenerateSpecTE", "-deadlock",
           "-config", cfg, module + ".tla"]
    t0 = time.time()
    out = []
    with open(raw_path, "w") as fh:
        p = subprocess.Popen(cmd, cwd=wd, env=common.env(), stdout=subprocess.PIPE, stderr=subprocess.STDOUT,
                             text=True, bufsize=1 << 20, errors="replace")
        killed = []
        timer = threading.Timer(timeout, lambda: (killed.append(1), p.kill()))
        timer.start()
        try:
            for line in p.stdout:
                if line.startswith('"'):
                    fh.write(line)
                else:
                    out.append(line)
                    if len(out) > 20000:
                        del out[:10000]
            p.wait()
        finally:
            timer.cancel()
    res.rc = p.returncode
    res.wall = time.time() - t0
    res.timed_out = bool(killed)
    res.out = "".join(out)
    m = None
    for m in common._RE_STATES.finditer(res.out):
        pass
    if m:
        res.generated, res.distinct = int(m.group(1)), int(m.group(2))
    m = common._RE_DEPTH.search(res.out)
    if m:
        res.depth = int(m.group(1))
    m = re.search(r"Invariant (\S+) is violated", res.out)
    if m:
        res.violated = m.group(1)
    if re.search(r"Error: (?!Invariant|Action property|Temporal|The behavior)", res.out) and not res.violated:
        res.error = res.out[-3000:]
    shutil.rmtree(meta, ignore_errors=True)
    return res


def limit_child():
    try:
        resource.setrlimit(resource.RLIMIT_AS, (12 << 30, 12 << 30))
    except (ValueError, OSError):
        pass


class Campaign:
    """Runs `walsim <cmd>` in nshard processes and merges their outputs."""

    def __init__(self, binary, root, seed):
        self.binary, self.root, self.seed = binary, root, seed
        self.findings = []       # dicts from walsim (violations, divergences, skips)
        self.stats = collections.defaultdict(lambda: collections.Counter())
        self.samples = collections.defaultdict(list)
        self.sigcounts = collections.Counter()
        self.restarts = []
        self.n = 0

    def launch(self, cmd, args, nshard, tag, traceout=False):
        procs = []
        for s in range(nshard):
            self.n += 1
            out = os.path.join(self.root, "out-%s-%d.ndjson" % (tag, s))
            work = os.path.join(self.root, "work-%s-%d" % (tag, s))
            a = [self.binary, cmd, "-out", out, "-work", work, "-seed", str(self.seed),
                 "-shard", str(s), "-nshard", str(nshard)] + args
            if traceout:
                a += ["-traceout", os.path.join(self.root, "trace-%s-%d.ndjson" % (tag, s))]
            p = subprocess.Popen(a, stdout=subprocess.PIPE, stderr=subprocess.STDOUT, text=True,
                                 preexec_fn=limit_child, env=common.env({"GOMAXPROCS": "4"}))
            procs.append((p, a, out, work, cmd, tag, s))
        return procs

    def collect(self, procs, timeout):
        deadline = time.time() + timeout
        for (p, a, out, work, cmd, tag, s) in procs:
            try:
                so, _ = p.communicate(timeout=max(1, deadline - time.time()))
            except subprocess.TimeoutExpired:
                p.kill()
                p.communicate()
                common.die_infra("walsim %s shard %d timed out" % (cmd, s))
            done = self._done(out)
            if done and p.returncode == 0:
                self._read(out, cmd)
            if p.returncode == 3:     # walsim's own infrastructure exit code (2 is the Go runtime's fatal error)
                common.die_infra("walsim %s shard %d: %s" % (cmd, s, so[-2000:]))
            if p.returncode != 0 or not done:
                self._died(a, out, work, cmd, s, p.returncode, so)
            shutil.rmtree(work, ignore_errors=True)

    def _done(self, out):
        if not os.path.exists(out):
            return False
        with open(out, "rb") as f:
            f.seek(0, 2)
            n = f.tell()
            f.seek(max(0, n - 65536))
            tail = f.read().decode("utf-8", "replace")
        return '{"done":true' in tail

    def _read(self, out, cmd):
        done = False
        if not os.path.exists(out):
            return False
        for line in open(out):
            try:
                d = json.loads(line)
            except ValueError:
                continue
            if d.get("done"):
                done = True
                st = d["stats"]
                c = self.stats[cmd]
                for k in ("cases", "reads", "violations", "divergences", "skips", "ambiguity"):
                    c[k] += st.get(k, 0)
                for k, v in (st.get("labels") or {}).items():
                    c["label:" + k] += v
                for smp in st.get("samples") or []:
                    if len(self.samples[cmd]) < 3:
                        self.samples[cmd].append(smp)
                for k, v in (d.get("sigcounts") or {}).items():
                    self.sigcounts[k] += v
            else:
                d["campaign"] = cmd
                self.findings.append(d)
        return done

    def _died(self, a, out, work, cmd, s, rc, so):
        """A reader killed the process (os.Exit / fatal runtime error / OOM): find the case with -trace."""
        shutil.rmtree(work, ignore_errors=True)
        p = subprocess.run(a + ["-trace"], stdout=subprocess.PIPE, stderr=subprocess.STDOUT, text=True,
                           preexec_fn=limit_child, env=common.env({"GOMAXPROCS": "4"}), timeout=1200)
        last = None
        for line in p.stdout.splitlines():
            if line.startswith("BEGIN "):
                last = line[6:]
        tailtxt = "\n".join(p.stdout.splitlines()[-15:])
        if p.returncode == 0:
            # not reproducible: an environment hiccup (thread / memory limits on a loaded machine), not the code
            # under test - the re-run's complete output replaces the dead worker's
            m = re.search(r"(fatal error: [^\n]*|runtime: [^\n]*)", so)
            self.restarts.append({"cmd": cmd, "shard": s, "rc": rc, "first_error": m.group(1) if m else so[:300]})
            print("NOTE: walsim %s shard %d died (rc=%s: %s); the re-run completed normally and is used instead"
                  % (cmd, s, rc, self.restarts[-1]["first_error"]), flush=True)
            self._read(out, cmd)
            return
        if last is None:
            common.die_infra("walsim %s shard %d died (rc=%s) before its first case:\n%s\n...\n%s" % (cmd, s, rc, so[:1200], so[-600:]))
        self.findings.append({"id": last, "class": "violation", "kind": "fatal", "campaign": cmd,
                              "detail": "the process running the real readers died (rc=%s) in case %s: %s" % (p.returncode, last, tailtxt[-600:]),
                              "sig": cmd + "/fatal", "scenario": {"cmd": a + ["-trace"], "case": last}})
        self._read(out, cmd)


def trace_validate(root, quick, C):
    """Concatenate the ndjson traces, add two deliberately corrupted copies of an accepted line (vacuity
    test of DESIGN section 4 item 2: TLC must reject both), run TLC on TraceWal.tla."""
    limit = 6000 if quick else 60000
    lines = []
    for p in sorted(glob.glob(os.path.join(root, "trace-rnd-*.ndjson"))):
        with open(p) as f:
            for line in f:
                if len(lines) < limit:
                    lines.append(line)
        os.remove(p)
    if not lines:
        common.die_infra("B2: the random campaign recorded no trace")
    planted = 0
    for line in lines:
        d = json.loads(line)
        if d["kind"] == "crash" and d["ok"] and len(d["ents"]) >= 1 and d["durable"] >= 1:
            a = json.loads(line)
            a["id"] = "VACUITY-altered-entry"
            a["ents"][-1]["s"] = (a["ents"][-1]["s"] + 1) % (1 << 30)
            b = json.loads(line)
            b["id"] = "VACUITY-lost-synced"
            b["ents"] = []
            b["hs"] = [0, 0, 0]
            b["durable"] = len(b["hist"])
            lines += [json.dumps(a) + "\n", json.dumps(b) + "\n"]
            planted = 2
            break
    wd = os.path.join(root, "tlc-trace")
    os.makedirs(wd)
    for f in ("TraceWal.tla", "TraceWal.cfg"):
        shutil.copy(os.path.join(common.SPEC, f), wd)
    tp = os.path.join(wd, "trace.ndjson")
    open(tp, "w").writelines(lines)
    t0 = time.time()
    res = common.run_tlc("TraceWal", cfg="TraceWal.cfg", workdir=wd, workers=1, heap="4g", extra_env={"TRACE": tp},
                         timeout=90 if quick else 600, jvm=("-XX:ParallelGCThreads=2",))
    rej = re.findall(r'"REJECT ([^"]+)"', res.out)
    if res.timed_out or res.rc != 0 or res.error or res.distinct != len(lines) + 1:
        common.die_infra("B2: TLC did not consume the whole trace (rc=%s, %d of %d lines):\n%s"
                         % (res.rc, res.distinct - 1, len(lines), res.out[-2000:]))
    vac = [r for r in rej if r.startswith("VACUITY-")]
    if len(set(vac)) != planted:
        common.die_infra("B2 vacuity test: planted %d corrupted trace lines, TraceWal rejected %s" % (planted, vac))
    real = [r for r in rej if not r.startswith("VACUITY-")]
    by_id = {}
    if real:
        for line in lines:
            d = json.loads(line)
            if d["id"] in real:
                by_id[d["id"]] = d
    for r in real:
        C.findings.append({"id": r, "class": "violation", "kind": "trace-rejected", "campaign": "random",
                           "detail": "TraceWal.tla rejects the recorded reader call %s (contract RecoveredIsPrefix / "
                                     "TornTailRepairable evaluated by TLC)" % r,
                           "sig": "b2-" + r.split("/")[-1] + "/trace-rejected", "scenario": by_id.get(r)})
    return {"events": len(lines) - planted, "rejected": len(real), "planted_rejected": len(set(vac)), "wall_s": round(time.time() - t0, 1)}


def sig_of(f):
    """walsim sig string -> (branch, kind, detail) of DESIGN section 2.5"""
    s = f.get("sig", "")
    kind = f.get("kind", "")
    if s.startswith("wal/"):
        p = s.split("/")   # wal/<where>/<rectype>/<field>/xorNN/<reader>/<kind>
        return {"branch": "wal.corrupt.%s.%s" % (p[2], p[3]), "kind": kind, "detail": "%s/%s/%s" % (p[4], p[1], p[5])}
    if s.startswith("snap/"):
        p = s.split("/")
        return {"branch": "snap.corrupt." + ".".join(p[1:-1]), "kind": kind, "detail": ""}
    if s.startswith("snapreplay/"):
        return {"branch": "snap.load", "kind": kind, "detail": ""}
    p = s.split("/")
    return {"branch": "wal.recover." + p[0], "kind": kind, "detail": "/".join(p[1:])}


def replay_mode(path):
    """python3 checks/C16.py replay /verif/replay/C16/vNNN.json : re-run the recorded case on the current tree.
    exit 1 if the real readers break the contract again, 0 if not, 2 on infrastructure problems."""
    root = common.scratch("c16r-")
    moddir = os.path.join(common.ROOT, "walsim")
    if common.REPO != "/repo":
        md = os.path.join(root, "walsim-src")
        shutil.copytree(moddir, md, ignore=shutil.ignore_patterns("go.sum"))
        gm = open(os.path.join(md, "go.mod")).read().replace("=> /repo/etcd", "=> %s/etcd" % common.REPO)
        open(os.path.join(md, "go.mod"), "w").write(gm)
        moddir = md
    binary = common.go_build(moddir, ".", os.path.join(root, "walsim"), tags="")
    out = os.path.join(root, "one.ndjson")
    p = subprocess.run([binary, "one", "-in", path, "-out", out, "-work", os.path.join(root, "w")], stdout=subprocess.PIPE,
                       stderr=subprocess.STDOUT, text=True, env=common.env(), preexec_fn=limit_child, timeout=600)
    print(p.stdout[-2000:])
    if p.returncode == 3:
        common.die_infra("walsim one: " + p.stdout[-1000:])
    nviol = 0
    if os.path.exists(out):
        for line in open(out):
            d = json.loads(line)
            if d.get("class") == "violation":
                nviol += 1
                print("REPRODUCED %s: %s" % (d.get("sig"), (d.get("detail") or "")[:400]))
    if p.returncode != 0 and nviol == 0:
        print("REPRODUCED: the reader process died (rc=%s)" % p.returncode)
        nviol = 1
    sys.exit(1 if nviol else 0)


def main():
    if len(sys.argv) > 2 and sys.argv[1] == "replay":
        replay_mode(sys.argv[2])
    tier = common.tier_arg()
    seed = common.seed()
    t0 = time.time()
    V = common.Verdict(PROP)
    base = "/dev/shm" if os.path.isdir("/dev/shm") and os.access("/dev/shm", os.W_OK) else None
    if base and not os.environ.get("VERIF_TMP"):
        os.environ["VERIF_TMP"] = base      # tmpfs: fsync is free, images are small and short-lived
    root = common.scratch("c16-")
    quick = tier == "quick"

    # ---- build walsim against the current tree (VERIF_REPO honoured through a scratch copy of the module)
    moddir = os.path.join(common.ROOT, "walsim")
    if common.REPO != "/repo":
        md = os.path.join(root, "walsim-src")
        shutil.copytree(moddir, md, ignore=shutil.ignore_patterns("go.sum"))
        gm = open(os.path.join(md, "go.mod")).read().replace("=> /repo/etcd", "=> %s/etcd" % common.REPO)
        open(os.path.join(md, "go.mod"), "w").write(gm)
        moddir = md
    binary = common.go_build(moddir, ".", os.path.join(root, "walsim"), tags="")

    # ---- TLC: model sanity + scenario emission (instances run concurrently)
    cores = os.cpu_count() or 8
    jobs = []
    inst = instances(tier)
    # worker threads per instance: the large ones get more; never more JVM threads than the machine can serve
    big = {"q": 6, "d": 8, "a": 4 if quick else 8, "n": 3 if quick else 4, "c": 2 if quick else 4, "k": 2 if quick else 4}
    for (name, kw, must_fail) in inst:
        wk = 1 if must_fail or name.startswith("f") else min(big.get(name, 2), max(1, cores // 2))
        j = TlcJob(name, kw, must_fail, root, wk, "3g" if quick else "6g", 200 if quick else 840)
        jobs.append(j)
        j.start()
    # snapshot model
    snapwd = os.path.join(root, "tlc-snap")
    os.makedirs(snapwd)
    for f in ("Snap.tla", "MC_Snap.tla", "MC_Snap.cfg"):
        shutil.copy(os.path.join(common.SPEC, f), snapwd)
    snapraw = os.path.join(snapwd, "emit.raw")
    sres = common.run_tlc("MC_Snap", cfg="MC_Snap.cfg", workdir=snapwd, workers=2, heap="1g", timeout=120, stdout_path=snapraw,
                          jvm=("-XX:ParallelGCThreads=2",))
    common.tlc_ok(sres, "MC_Snap")
    snapscen = os.path.join(root, "scen-snap.ndjson")
    nsnap = 0
    with open(snapraw) as f, open(snapscen, "w") as o:
        for line in f:
            try:
                o.write(json.dumps(json.loads(json.loads(line))) + "\n")
                nsnap += 1
            except ValueError:
                pass

    # campaigns that do not need TLC output start right away
    C = Campaign(binary, root, seed)
    nsh = max(2, min(8, cores // 2))
    pr = []
    nrnd_sh = nsh if not quick else 4
    pr += C.launch("random", ["-n", str(1500 if quick else 60000)], nrnd_sh, "rnd", traceout=True)
    pr += C.launch("snap", ["-n", str(6 if quick else 30)], 2 if quick else nsh, "snap")
    pr += C.launch("snapreplay", ["-in", snapscen], 1, "snapr")
    pr += C.launch("corrupt", ["-n", str(6 if quick else 60)] + ([] if quick else ["-full"]), nsh, "cor")

    states = transitions = 0
    model = {}
    total_scen = nontrivial_tlc = 0
    model_labels = collections.Counter()
    for j in jobs:
        j.join()
        if j.exc is not None:
            common.die_infra("TLC job %s: %r" % (j.name_, j.exc))
        r = j.res
        if j.must_fail:
            if not r.violated:
                common.die_infra("mutated model instance %s (%s) no longer violates any invariant: the model has lost "
                                 "its sensitivity\n%s" % (j.name_, j.kw, r.out[-1500:]))
            model[j.name_] = {"cfg": j.kw, "violated_as_expected": r.violated, "wall_s": round(r.wall, 1)}
            continue
        common.tlc_ok(r, "MC_Wal instance %s %s" % (j.name_, j.kw))
        states += r.distinct
        transitions += r.generated
        total_scen += j.count
        nontrivial_tlc += j.nontrivial
        model_labels.update(j.labels)
        model[j.name_] = {"cfg": j.kw, "distinct_states": r.distinct, "generated": r.generated, "depth": r.depth,
                          "scenarios": j.count, "wall_s": round(r.wall, 1)}
        if j.kw.get("EmitOn") == "FALSE":
            continue
        if j.count == 0:
            common.die_infra("TLC instance %s emitted no scenario" % j.name_)
        pr += C.launch("replay", ["-in", j.scen], nsh, "rep-" + j.name_)
    states += sres.distinct
    transitions += sres.generated
    model["snap"] = {"distinct_states": sres.distinct, "generated": sres.generated, "scenarios": nsnap}

    C.collect(pr, 150 if quick else 840)

    # ---- binding B2: the recorded reader calls of the random campaign are judged by TraceWal.tla
    b2 = trace_validate(root, quick, C)

    # ---- verdict
    divergences = collections.Counter()
    skips = collections.Counter()
    ambiguity = collections.Counter()
    ambiguity_samples = []
    known_local = {}
    by_source = collections.Counter()
    for f in C.findings:
        cls = f.get("class")
        if cls == "divergence":
            divergences[f.get("sig", "?")] += 1
            if divergences[f.get("sig", "?")] <= 2:
                print("DIVERGENCE property=%s %s: %s" % (PROP, f.get("sig"), (f.get("detail") or "")[:300]), flush=True)
            continue
        if cls == "skip":
            skips[f.get("sig", "?")] += 1
            continue
        if cls == "ambiguity":
            ambiguity[f.get("kind", "?")] += 1
            if len(ambiguity_samples) < 2:
                ambiguity_samples.append(f)
            continue
        if cls != "violation":
            continue
        sig = sig_of(f)
        hit = common.match_known([dict(e, status="known", property=PROP) for e in TODO_KNOWN], sig)
        if hit is not None and common.match_known(V.known, sig) is None:
            if hit["id"] not in known_local:
                known_local[hit["id"]] = {"what": hit["what"], "witness": f}
                print("KNOWN-FINDING: property=%s %s (%s; TODO-known, local list in checks/C16.py)" % (PROP, hit["what"], hit["id"]), flush=True)
            continue
        src = f.get("campaign", "?")
        if src == "replay":
            src = "replay:" + re.sub(r"[0-9./].*$", "", f.get("id", "?"))    # the TLC instance the scenario came from
        if f.get("kind") == "trace-rejected":
            src = "b2-tracewal"
        if common.match_known(V.known, sig) is None:
            by_source[src] += 1
        V.report(sig, {"finding": f, "seed": seed, "how": "walsim %s: see finding.scenario; rebuild walsim and run the "
                       "scenario line with `walsim replay -in <file>` or the campaign with the same -seed" % f.get("campaign")},
                 what="[%s %s] %s" % (f.get("campaign"), f.get("id"), f.get("detail")))

    if by_source:
        print("C16: findings-by-source %s (witnesses, at most 3 kept per signature and worker; known findings excluded)"
              % " ".join("%s=%d" % kv for kv in sorted(by_source.items())), flush=True)
    ndiv = sum(divergences.values())
    st = C.stats
    cor = st["corrupt"]
    nontrivial_cor = sum(v for k, v in cor.items() if k.startswith("label:field=") and not k.startswith("label:field=tail/zero"))
    nontrivial_cor = nontrivial_cor  # each (image, file, offset, mask) is visited once
    nt_random = st["random"]["label:lost>0"]
    evaluations = (st["replay"]["cases"] + st["random"]["cases"] + st["corrupt"]["reads"] + st["snap"]["reads"]
                   + st["snapreplay"]["cases"])
    labels = {}
    for cmd, c in st.items():
        for k, v in c.items():
            if k.startswith("label:") and not k.startswith("label:field="):
                labels["%s.%s" % (cmd, k[6:])] = v
    fields = sorted(k[12:] for k in cor if k.startswith("label:field="))
    coverage = {
        "evaluations": int(evaluations),
        "distinct_nontrivial": int(nontrivial_tlc + nontrivial_cor),
        "rule": "crash cases: one per terminal state of the TLC model instances (distinct by construction, deduplicated "
                "by content) replayed on real files, non-trivial = at least one sector lost; corruption cases: one per "
                "(image, file, byte offset, xor mask), non-trivial = the byte lies inside a record (not in the zero "
                "tail). Random crash scenarios (%d, %d with lost sectors) and snapshot-file cases (%d loads) are "
                "counted in evaluations only." % (st["random"]["cases"], nt_random, st["snap"]["reads"]),
        "samples": (C.samples["replay"][:2] + C.samples["random"][:1] + C.samples["corrupt"][:1] + C.samples["snap"][:1]
                    + C.samples["snapreplay"][:1]) or ["none"],
        "states": int(states),
        "transitions": int(transitions),
        "traces_validated_against_impl": int(st["replay"]["cases"] + st["snapreplay"]["cases"] + b2["events"]),
        "model_instances": model,
        "model_action_labels": dict(sorted(model_labels.items())),
        "tlc_scenarios": int(total_scen),
        "tlc_scenarios_with_lost_sectors": int(nontrivial_tlc),
        "replayed": int(st["replay"]["cases"]),
        "random_cases": int(st["random"]["cases"]),
        "corruption_images": int(cor["cases"]),
        "corruption_reads": int(cor["reads"]),
        "corruption_flips_in_records": int(nontrivial_cor),
        "corruption_fields_hit": fields,
        "snapshot_sets": int(st["snap"]["cases"]),
        "snapshot_loads": int(st["snap"]["reads"]),
        "snap_model_scenarios": int(st["snapreplay"]["cases"]),
        "b2_trace_validation": b2,
        "labels": labels,
        "ambiguity_uses": int(sum(st[cmd]["ambiguity"] for cmd in st)),
        "ambiguity_kinds": {"stale-superseded-entry": "ReadAll opened at a snapshot returns an entry above the snapshot index that a "
                            "later save had overwritten starting at or below that index (the entry was written; DESIGN 2.4)",
                            "commit-only-hardstate": "implicit: a commit-only Save is not required to be durable (MustSync false)"},
        "ambiguity_samples": ambiguity_samples,
        "violation_witnesses_by_source": dict(by_source),
        "worker_restarts": C.restarts,
        "divergences": int(ndiv),
        "divergence_signatures": dict(divergences),
        "skipped": dict(skips),
        "known_findings_local": {k: v["what"] for k, v in known_local.items()},
        "known_witness": {k: v["witness"] for k, v in known_local.items()},
        "exhaustive": False,
    }
    # vacuity guards: the campaigns must have exercised what they claim (only meaningful when nothing failed)
    need = [("replay", "label:first=ueof"), ("replay", "label:repair"), ("replay", "label:epoch2"), ("replay", "label:segments>1"),
            ("snap", "label:snap.fallback"), ("corrupt", "label:rejected")]
    must_labels = ["op.SaveSnapshot", "op.Save.cut", "op.Save.buffered(MustSync=false)", "op.Save.rewrite-uncommitted-tail",
                   "op.Save.none.ents=1", "op.Save.hs.ents=0", "op.Save.hs.ents=2", "crash1.lost=some", "crash1.segments>1",
                   "recover1.first=ok", "recover1.first=ueof", "recover1.Repair", "recover1.kept-unsynced-records",
                   "recover1.exactly-durable", "Append2", "crash2.lost=some", "recover2.first=ueof", "recover2.Repair",
                   "CrashInCut", "Append2Cut", "CrashInCut.stale-tmp-fatal(C16-F02)",
                   "Corrupt.len", "Corrupt.type", "Corrupt.data", "Corrupt.rejected", "Corrupt.accepted",
                   "Corrupt.type.accepted-nonprefix(C16-F01)"]
    for k in must_labels:
        if model_labels[k] == 0:
            common.die_infra("vacuity guard: no TLC scenario exercised %s" % k)
    if not V.violations:
        for cmd, k in need:
            if st[cmd][k] == 0:
                common.die_infra("vacuity guard: campaign %s never exercised %s" % (cmd, k[6:]))
        if sum(skips.values()) > max(20, 0.02 * max(1, st["replay"]["cases"])):
            common.die_infra("too many skipped scenarios: %s" % dict(skips))
    assumptions = [
        "sector-atomic storage with 512-byte sectors; preallocated segments read as zero where never written; the file "
        "size after the interrupted write is kept (lost sectors read as zero, the file is not shortened)",
        "a crash is materialised as: complete the save, then revert a subset of the sectors written since the last "
        "completed sync (the page writer hands bytes to the OS only at sync for saves below 128 KB)",
        "ZeroToEnd / Repair truncation are durable before the next append",
        "the CRC is abstract in the model (any damaged record is invalid); real CRC behaviour is covered only by the "
        "all-offset corruption runs on real files",
        "synced offsets are inferred by an independent frame parser after every call (no hook in /repo)",
        "durability obligations follow raft.MustSync evaluated by the harness on the inputs (commit-only hard state "
        "changes may be lost: DESIGN 2.4)",
    ]
    print("C16: tier=%s seed=%d states=%d scenarios=%d replayed=%d random=%d corruption_reads=%d snapshot_loads=%d "
          "divergences=%d wall=%.1fs" % (tier, seed, states, total_scen, st["replay"]["cases"], st["random"]["cases"],
                                         cor["reads"], st["snap"]["reads"], ndiv, time.time() - t0), flush=True)
    # ---- node-level recovery composition (spec/Recover.tla): which snapshot the node starts from, where the WAL replay begins
    import recoverlib
    recoverlib.run(tier, V, PROP, coverage)
    # snapshot-heavy instance, every Save ending with a segment cut (files are chosen by name when the log is opened at a snapshot)
    recoverlib.run_snaps(tier, V, PROP, coverage)
    # the syncs the crash model assumes, observed: a WAL workload under strace; at the return of every call that must be durable
    # (and of every call that cut the segment) no WAL file may hold bytes newer than its last fdatasync (lib/walsync.py)
    import walsync
    sp, sstats = walsync.run(binary)
    coverage["observed_syncs"] = sstats
    if sp is None:
        print("NOTE: sync probe inconclusive (%s)" % sstats.get("inconclusive"), flush=True)
    seen_sp = set()
    for pr in sp or []:
        kk = (pr["call"].split(" ")[0], tuple(pr["files"]))
        if kk in seen_sp or len(seen_sp) >= 3:
            continue
        seen_sp.add(kk)
        V.report({"branch": "wal.sync", "kind": pr["kind"], "detail": pr["call"].split(" ")[0]}, pr, what="system-call trace of a WAL workload: %s" % pr["detail"])
    # the real Ready loop (raftexample/raft.go serveChannels) against the same model: a follower installs the leader's snapshot
    # and dies inside that Ready cycle. (1) it must be able to start again; (2) its event trace shows in which order it made
    # the snapshot and the hard state durable - if that is not the specified order, Recover.tla is instantiated with the
    # observed one (B3) and its behaviours are replayed on real files to obtain a witness
    import clusterscen
    sic = {}
    for gate in (["walsave"] if tier == "quick" else ["savesnap", "walsave", "append", "advance"]):
        for attempt in range(2):
            probs, st = clusterscen.snapshot_install_crash(gate, seed=common.seed())
            if probs is not None:
                break
        sic[gate] = st
        for pr in probs or []:
            V.report({"branch": "readyloop.snapshot-install", "kind": pr["kind"], "detail": gate}, pr, what=pr["detail"])
        if st.get("ready_snapshot_order") == "save_first" and "recover_model_as_observed" not in coverage:
            print("DIVERGENCE property=%s the Ready loop saved the hard state of a snapshot-carrying Ready before the snapshot (event trace of the follower); instantiating Recover.tla with the observed order" % PROP, flush=True)
            recoverlib.run(tier, V, PROP, coverage, as_observed="save_first")
    coverage["ready_loop_snapshot_install"] = sic
    coverage["evaluations"] = int(coverage["evaluations"]) + coverage["recover_model"]["replayed"] + coverage["recover_model_snapshots"]["replayed"] + coverage["recover_model_snapshots_cut_everywhere"]["replayed"]
    V.finish(tier, "fault_enumeration", coverage, assumptions)


if __name__ == "__main__":
    main()
