#!/usr/bin/env python3
"""C19 Pub/Sub: spec/PubSub.tla (per-connection, per-channel inboxes; atomic fan-out; count = fan-out) is model-checked
by TLC (MC_PubSub: exactly-once in publish order to exactly the current subscribers, count is fan-out); real histories
recorded by harness/cmd/pubsub - sequential schedules, concurrent subscribe/publish/close through Manager.Handle
(net.Pipe), and over TCP against the real binary, payloads with CR LF - are checked for linearizability against the
same spec by TLC (TracePubSub.tla). Publisher watchdog (3 s), stray bytes on any connection and process death are
reported by the driver."""
import concurrent.futures, json, os, struct, subprocess
import common, ks, server

tier = common.tier_arg()
v = common.Verdict("C19")
seed = common.seed()
res = common.run_tlc("MC_PubSub", workers=8, heap="3g", timeout=600)
common.tlc_ok(res, "MC_PubSub")
tool = ks.build_tool("pubsub")
d = common.scratch("c19-")
cov = {"states": res.distinct, "transitions": res.generated, "traces_validated_against_impl": 0, "samples": [], "runs": {}}
srv = server.Server()
plan = [("sequential", ["-sequential"], 60 if tier == "quick" else 600, 1),
        ("concurrent-pipe", [], 400 if tier == "quick" else 6000, 8),
        ("concurrent-tcp", ["-addr", "127.0.0.1:%d" % srv.port], 80 if tier == "quick" else 1500, 4)]
files = []
try:
    for name, extra, nh, nproc in plan:
        per = max(1, nh // nproc)
        def one(i, name=name, extra=extra, per=per):
            path = os.path.join(d, "%s-%d.ndjson" % (name, i))
            prog = os.path.join(d, "prog-%s-%d" % (name, i))
            open(prog, "wb").write(struct.pack("<Q", 0))
            p = subprocess.run([tool, "-seed", str(seed * 100 + i + len(files)), "-hist", str(per), "-out", path, "-progress", prog, "-hbase", str(i * per)] + extra,
                               stdout=subprocess.PIPE, stderr=subprocess.PIPE, timeout=1500)
            return path, prog, p
        with concurrent.futures.ThreadPoolExecutor(max_workers=nproc) as ex:
            for path, prog, p in ex.map(one, range(nproc)):
                out = p.stdout.decode("utf-8", "replace")
                summ = None
                for line in out.splitlines():
                    if line.startswith("SUMMARY "):
                        summ = json.loads(line[8:])
                    elif line.startswith("{"):
                        a = json.loads(line)
                        v.report({"branch": "pubsub." + name, "kind": a["kind"], "detail": ""}, a, what="%s history %d: %s" % (name, a["h"], a["detail"]))
                if p.returncode != 0 or summ is None:
                    h = struct.unpack("<Q", open(prog, "rb").read(8))[0]
                    err = p.stderr.decode("utf-8", "replace")
                    first = ([l for l in err.splitlines() if l.strip()] or ["rc=%s" % p.returncode])[0]
                    v.report({"branch": "pubsub." + name, "kind": "process-death", "detail": first[:80]}, {"history": h, "stderr": err[-2000:]},
                             what="the process serving Pub/Sub died during %s history %d: %s" % (name, h, first))
                else:
                    r = cov["runs"].setdefault(name, {"histories": 0, "operations": 0, "pushes": 0})
                    for k in r:
                        r[k] += summ[k]
                    files.append((name, path))
        if name == "concurrent-tcp" and not srv.alive():
            v.report({"branch": "pubsub.tcp", "kind": "process-death", "detail": "server"}, {"log": srv.tail(2000)}, what="the real server died under Pub/Sub load: " + srv.tail(400))
finally:
    srv.stop()


def validate(item):
    name, path = item
    r = common.run_tlc("TracePubSub", workers=1, heap="3g", extra_env={"TRACE": path}, timeout=1500)
    if r.timed_out or r.rc != 0 or "Model checking completed. No error" not in r.out:
        common.die_infra("TracePubSub failed on %s:\n%s" % (path, r.out[-2000:]))
    fails = []
    for line in r.out.splitlines():
        if line.startswith('"'):
            try:
                s = json.loads(line)
            except Exception:
                continue
            if s.startswith("PSFAIL "):
                fails.append(json.loads(s[7:]))
    return name, path, fails


def hist(path, h):
    out = []
    for l in open(path):
        e = json.loads(l)
        if e["h"] == h and e["ev"] != "reset":
            out.append({k: val for k, val in e.items() if k != "h" and val not in ([], "", 0, False) or k == "ev"})
    return out


with concurrent.futures.ThreadPoolExecutor(max_workers=8) as ex:
    for name, path, fails in ex.map(validate, files):
        for f in fails:
            kind = "count" if "count" in f["what"] else ("undelivered" if "never delivered" in f["what"] else "delivery")
            v.report({"branch": "pubsub." + name, "kind": kind, "detail": ""}, {"history": hist(path, f["h"]), "failing_event": f["ev"]},
                     what="%s history %d: %s (%s)" % (name, f["h"], f["what"], {k: val for k, val in f["ev"].items() if val not in ([], "", 0, False)}))
        if len(cov["samples"]) < 2:
            first = json.loads(open(path).readline())
            cov["samples"].append({"kind": name + " history", "events": hist(path, first["h"])[:20]})
# ---- subscribe storm (harness/cmd/substorm): connections subscribing to the same channels in different orders at the same
# moment, then one PUBLISH per channel: nobody may stay blocked
import os, subprocess
st_tool = ks.build_tool("substorm")
sp = subprocess.run([st_tool, "-seed", str(seed), "-rounds", "4000" if tier == "quick" else "60000"], stdout=subprocess.PIPE, stderr=subprocess.PIPE, text=True, timeout=3000)
for line in sp.stdout.splitlines():
    if line.startswith("SUMMARY "):
        cov["subscribe_storm"] = json.loads(line[8:])
    elif line.startswith("{"):
        a = json.loads(line)
        v.report({"branch": "pubsub.storm", "kind": a["kind"], "detail": ""}, a, what="subscribe storm, round %d: %s" % (a["round"], a["detail"]))
if sp.returncode != 0:
    v.report({"branch": "pubsub.storm", "kind": "process-death", "detail": sp.stderr.strip().splitlines()[0][:80] if sp.stderr.strip() else ""}, {"stderr": sp.stderr[-1500:]},
             what="the process died during the subscribe storm: %s" % (sp.stderr.strip().splitlines()[0][:200] if sp.stderr.strip() else sp.returncode))
# the same storm under Go's race detector: the subscriber tables are shared by every connection
import conc
st_race = ks.build_tool("substorm", race=True)
rd = common.scratch("c19race-")
spr = subprocess.run([st_race, "-seed", str(seed + 5), "-rounds", "1200" if tier == "quick" else "12000"], stdout=subprocess.PIPE, stderr=subprocess.PIPE, text=True, timeout=3000,
                     env=dict(common.env(), GORACE="halt_on_error=0 log_path=%s" % os.path.join(rd, "racelog-storm")))
races = conc.parse_race_logs(rd)
for rc_ in races:
    v.report({"branch": "pubsub.race", "kind": "data-race", "detail": " || ".join(sorted(rc_["sites"]))[:160]}, rc_,
             what="unsynchronised accesses to the same memory during the subscribe storm (Go race detector, %d reports): %s" % (rc_["count"], " and ".join(rc_["sites"])))
for line in spr.stdout.splitlines():
    if line.startswith("SUMMARY "):
        cov["subscribe_storm_race_detector"] = dict(json.loads(line[8:]), race_reports=sum(x["count"] for x in races))
    elif line.startswith("{"):
        a = json.loads(line)
        v.report({"branch": "pubsub.storm", "kind": a["kind"], "detail": ""}, a, what="subscribe storm (race build), round %d: %s" % (a["round"], a["detail"]))
if spr.returncode not in (0, 66) or "subscribe_storm_race_detector" not in cov:
    v.report({"branch": "pubsub.storm", "kind": "process-death", "detail": spr.stderr.strip().splitlines()[0][:80] if spr.stderr.strip() else ""}, {"stderr": spr.stderr[-1500:]},
             what="the process died during the subscribe storm (race build): %s" % (spr.stderr.strip().splitlines()[0][:200] if spr.stderr.strip() else spr.returncode))
cov["traces_validated_against_impl"] = sum(r["histories"] for r in cov["runs"].values())
v.finish(tier, "model_checking", cov, ["order is promised per channel (messages of different channels may overtake each other on one connection)",
                                       "SUBSCRIBE a b is one subscription per channel; a subscriber whose close overlaps a PUBLISH may or may not be counted in its reply (DESIGN.md 2.4)",
                                       "subscribers read continuously; quiescence = 60 ms after the last operation returned"])
