#!/usr/bin/env python3
"""C17 KEYS glob grammar: TLC evaluates spec/Glob.tla Match(p, s) for every pattern up to MaxLen over the
metacharacter alphabet and every subject up to length 3 (MC_Glob.tla, sliced over parallel TLC runs);
harness/cmd/globcheck compares util.PattenMatch and the KEYS command with every table row."""
import concurrent.futures, json, os, subprocess, sys, time
import common, ks

tier = common.tier_arg()
MAXLEN = 5 if tier == "quick" else 6
NSLICES = 16 if tier == "quick" else 64
v = common.Verdict("C17")
tool = ks.build_tool("globcheck")
d = common.scratch("c17-")


NATOMS = 3 if tier == "quick" else 4
ASLICES = 4 if tier == "quick" else 32


def one(slice_no):
    cfg = os.path.join(d, "glob-%d.cfg" % slice_no)
    if slice_no < NSLICES:
        module = "MC_Glob"
        open(cfg, "w").write("SPECIFICATION Spec\nCONSTANTS\n  MaxLen = %d\n  Slice = %d\n  NSlices = %d\nCHECK_DEADLOCK FALSE\n" % (MAXLEN, slice_no, NSLICES))
    else:   # patterns composed of atoms (MC_GlobAtoms.tla): constructs meeting constructs beyond the exhaustive length bound
        module = "MC_GlobAtoms"
        open(cfg, "w").write("SPECIFICATION Spec\nCONSTANTS\n  NAtoms = %d\n  Slice = %d\n  NSlices = %d\nCHECK_DEADLOCK FALSE\n" % (NATOMS, slice_no - NSLICES, ASLICES))
    table = os.path.join(d, "table-%d.txt" % slice_no)
    wd = common.scratch("tlc-glob-")
    import shutil
    shutil.copy(cfg, wd)
    res = common.run_tlc(module, cfg=os.path.basename(cfg), workdir=wd, workers=1, heap="2g", timeout=1500, stdout_path=table)
    common.tlc_ok(res, "%s slice %d" % (module, slice_no))
    p = subprocess.run([tool], stdin=open(table), stdout=subprocess.PIPE, stderr=subprocess.PIPE, text=True, timeout=1500)
    os.remove(table)
    if p.returncode != 0:
        common.die_infra("globcheck failed: " + p.stderr[-2000:])
    fails, summ = [], None
    for line in p.stdout.splitlines():
        if line.startswith("SUMMARY "):
            summ = json.loads(line[8:])
        elif line.strip():
            fails.append(json.loads(line))
    return fails, summ


tot = {"rows": 0, "pairs": 0, "fails": 0, "unspecified_pairs": 0, "keys_checked": 0}
samples = []
with concurrent.futures.ThreadPoolExecutor(max_workers=16) as ex:
    for fails, summ in ex.map(one, range(NSLICES + ASLICES)):
        if summ is None:
            common.die_infra("no summary from globcheck")
        for k in tot:
            tot[k] += summ[k]
        for f in fails:
            # signature: kind + class of the pattern (which metacharacters it uses) so distinct defects stay distinct
            meta = "".join(sorted(set(c for c in f["pattern"] if c in "*?[]^-\\")))
            sig = {"branch": "glob." + f["status"], "kind": f["kind"], "detail": "meta=%s want=%s" % (meta, f["want"] if f["kind"] == "match" else "")}
            v.report(sig, f, what="pattern %r subject %r: model %s, implementation %s" % (f["pattern"], f["subject"], f["want"], f["got"]))
samples = [{"pattern": "h[a-c]*", "subject": "hbx", "table": "T"}, {"pattern": "[a", "subject": "a", "table": "F (broken pattern matches nothing)"},
           {"pattern": "[]a]", "subject": "a", "table": "U (grammar leaves it open: only termination required)"}]
cov = {"states": tot["rows"], "transitions": tot["pairs"], "traces_validated_against_impl": tot["rows"],
       "samples": samples, "exhaustive": True, "pattern_max_len": MAXLEN, "alphabet": "a b * ? [ ] ^ - \\", "subjects": 85,
       "pairs_compared": tot["pairs"] - tot["unspecified_pairs"], "pairs_unspecified_termination_only": tot["unspecified_pairs"],
       "keys_commands_compared": tot["keys_checked"],
       "explanation": "states = table rows (patterns) evaluated by TLC, transitions = (pattern, subject) pairs; every row replayed on util.PattenMatch and on KEYS"}
v.finish(tier, "model_checking", cov, ["the documented grammar as transcribed in spec/Glob.tla (meta-properties checked by TLC ASSUMEs)",
                                       "constructs the grammar does not settle (\"U\") only require termination without panic",
                                       "exhaustive up to pattern length %d / subject length 3 over the metacharacter alphabet; beyond that, every concatenation of 2..%d of 16 atoms (literal, ?, *, sets, negated sets, ranges, escapes)" % (MAXLEN, NATOMS)])
