#!/usr/bin/env python3
"""C14 cluster mode does not change what a command means.
(1) spec/Codec.tla: TLC checks that the faithful proposal codec is the identity on every argument vector (and that the
    model of the old space-joined codec corrupts exactly the expected classes) and enumerates the vectors; each one is
    pushed through the REAL cluster path (HandleCluster -> RaftProposal JSON -> apply loop -> executor) and must come
    back byte for byte - in process (Raft transport replaced) for all vectors, on a real 3-node cluster for a sample.
(2) the keyspace reference: the B1 transition tables of every family are replayed through the in-process cluster path,
    and random programmes of every family run through it, through a real 1-node and a real 3-node cluster and through
    a standalone server of the same build; all traces are validated by TraceKs.tla, and after every programme each key
    is read back through EVERY replica's own port (replica agreement with the model)."""
import concurrent.futures, json, os, subprocess
import common, ks, server, cluster

tier = common.tier_arg()
v = common.Verdict("C14")
seed = common.seed()
d = common.scratch("c14-")
cov = {"states": 0, "transitions": 0, "traces_validated_against_impl": 0, "samples": [], "codec": {}, "programmes": {}}

# ---- (1) codec vectors ----
maxargs = 2 if tier == "quick" else 3
nsl = 4 if tier == "quick" else 16


def vecs(i):
    cfg = os.path.join(d, "codec-%d.cfg" % i)
    wd = common.scratch("tlc-codec-")
    open(os.path.join(wd, "codec-%d.cfg" % i), "w").write("SPECIFICATION Spec\nCONSTANTS\n  MaxArgs = %d\n  MaxLen = 2\n  Slice = %d\n  NSlices = %d\nCHECK_DEADLOCK FALSE\n" % (maxargs, i, nsl))
    out = os.path.join(d, "vec-%d.txt" % i)
    res = common.run_tlc("Codec", cfg="codec-%d.cfg" % i, workdir=wd, workers=1, heap="2g", timeout=900, stdout_path=out)
    common.tlc_ok(res, "Codec slice %d" % i)
    return out


with concurrent.futures.ThreadPoolExecutor(max_workers=8) as ex:
    vec_files = list(ex.map(vecs, range(nsl)))
cc = ks.build_tool("codeccheck")
gen = ks.build_tool("ksgen")


def run_codec(path, extra):
    p = subprocess.run([cc] + extra, stdin=open(path), stdout=subprocess.PIPE, stderr=subprocess.PIPE, text=True, timeout=900)
    if p.returncode != 0:
        common.die_infra("codeccheck failed: " + p.stderr[-1500:])
    summ, fails = None, []
    for line in p.stdout.splitlines():
        if line.startswith("SUMMARY "):
            summ = json.loads(line[8:])
        elif line.startswith("{"):
            fails.append(json.loads(line))
    return summ, fails


tot = {"vectors": 0, "executed": 0}
for path in vec_files:
    summ, fails = run_codec(path, [])
    tot["vectors"] += summ["vectors"]
    tot["executed"] += summ["executed"]
    for f in fails:
        v.report({"branch": "codec." + f["class"], "kind": f["kind"], "detail": "in-process cluster path"}, f,
                 what="argument vector %r came back as %r through the cluster path (%s)" % (f["argv"], f["got"], f["detail"]))
cov["codec"]["in_process"] = tot
cov["states"] += tot["vectors"]
cov["transitions"] += tot["vectors"]

# ---- (2) reference keyspace through the cluster path ----
# B1 tables through the in-process cluster path (wire tour with -cluster)
INST = [("MC_String", "MC_String.cfg", False), ("MC_List", "MC_List.cfg", True), ("MC_Hash", "MC_Hash.cfg", True), ("MC_Set", "MC_Set.cfg", True),
        ("MC_Zset", "MC_Zset.cfg", True), ("MC_Stream", "MC_Stream.cfg", True)]


def b1(job):
    module, cfg, sub = job
    return job, ks.run_b1(module, cfg, workers=4, tour_args=["-wire", "-cluster", "-sample", "2" if tier == "quick" else "6"] + (["-subst"] if sub else []))


with concurrent.futures.ThreadPoolExecutor(max_workers=4) as ex:
    for (module, cfg, sub), r in ex.map(b1, INST):
        s = r["summary"]
        cov["states"] += r["tlc"]["distinct"]
        cov["transitions"] += r["tlc"]["generated"]
        cov.setdefault("b1_cluster_path", {})[cfg] = {"edges_tested": s["edges_tested"], "labels_passed": s["labels_passed"], "labels_total": s["labels_total"]}
        for f in r["failures"]:
            v.report({"branch": f["branch"], "kind": "cluster-path-" + f["kind"], "detail": f["detail"] if f["kind"] != "wire" else ""},
                     {"instance": cfg, "path": f.get("path"), "cmd": f["cmd"], "got": f.get("got"), "expected": f.get("expected"), "problem": f.get("state_diff")},
                     what="%s through the cluster path: after %s, %s -> %s %s" % (cfg, f.get("path"), f["cmd"], ks.show_reply(f.get("got")), f.get("state_diff") or ""))

fams = ["string", "keys", "list", "hash", "set", "zset", "stream"]
jobs = []
p_in = 60 if tier == "quick" else 600
p_real = 4 if tier == "quick" else 40
for fam in fams:
    jobs.append(("clusterpipe", fam, ["-mode", "clusterpipe", "-nononce", "-progs", str(p_in)], None))
sa = server.Server(databases=1)
c1 = cluster.Cluster(1, trace=False).start_all()
c3 = cluster.Cluster(3, trace=False).start_all()
try:
    if c1.wait_serving() is None or c3.wait_serving() is None:
        common.die_infra("clusters did not start serving: %s" % c3.tail(c3.nodes[0], 800))
    for path in vec_files[:1]:
        summ, fails = run_codec(path, ["-addr", "127.0.0.1:%d" % c3.nodes[1].kv_port, "-every", "9" if tier == "quick" else "3"])
        cov["codec"]["real_3node_cluster"] = {"executed": summ["executed"]}
        for f in fails:
            v.report({"branch": "codec." + f["class"], "kind": f["kind"], "detail": "real 3-node cluster"}, f,
                     what="argument vector %r came back as %r through a real 3-node cluster" % (f["argv"], f["got"]))
    targets = [("standalone", "127.0.0.1:%d" % sa.port, ""), ("cluster1", "127.0.0.1:%d" % c1.nodes[0].kv_port, ""),
               ("cluster3", "127.0.0.1:%d" % c3.nodes[0].kv_port, ",".join("127.0.0.1:%d" % n.kv_port for n in c3.nodes[1:]))]

    def real(t):
        name, addr, reps = t
        outs = []
        for k, fam in enumerate(fams):
            path = os.path.join(d, "%s-%s.ndjson" % (name, fam))
            cmd = [gen, "-family", fam, "-seed", str(seed * 100 + k), "-progs", str(p_real), "-steps", "24", "-out", path, "-mode", "tcp", "-addr", addr,
                   "-nononce", "-pbase", str(k * p_real)]
            if reps:
                cmd += ["-replicas", reps]
            p = subprocess.run(cmd, stdout=subprocess.PIPE, stderr=subprocess.STDOUT, text=True, timeout=1200)
            if p.returncode != 0:
                common.die_infra("ksgen failed on %s: %s" % (name, p.stdout[-1500:]))
            outs.append((name, fam, path))
        return outs

    import clusterscen
    with concurrent.futures.ThreadPoolExecutor(max_workers=4) as ex:
        flock = ex.submit(clusterscen.pinned_lockstep, 40 if tier == "quick" else 300)
        real_traces = [x for outs in ex.map(real, targets) for x in outs]
        lprobs, lstats = flock.result()
    cov["lockstep_one_client_per_node"] = lstats
    # a proposal that waits for its quorum (both followers frozen for 6.5 s) still means what it means on a standalone
    # server: applied once, answered with its own result (the scenario is shared with C07)
    import conc
    sp = clusterscen.stalled_proposals(("stalled-proposals-6.5s", 6.5, 700), common.scratch("c14stall-"))
    cov["stalled_proposals"] = dict(sp["stats"], inconclusive=sp["inconclusive"])
    for sig, replay, what in sp["violations"]:
        v.report(sig, replay, what=what)
    if sp["path"] and not sp["inconclusive"]:
        nonlin, _ = conc.validate_hist_split(sp["path"])
        for n in nonlin[:3]:
            hist = conc.history_of(n["path"], n["sub_h"])
            v.report({"branch": "cluster.stalled-proposal", "kind": "not-the-standalone-meaning", "detail": ks.b2s(n["argv"][0]).lower()},
                     {"history": hist, "failing": n},
                     what="three writes handed to a leader whose followers were frozen for 6.5 s: no standalone execution order explains reply %s of %s" % (
                         ks.show_reply(n["got"]), ks.show_argv(n["argv"])))
    # several connections proposing through ONE node at the same moment (no faults): every reply and every final value is
    # the standalone one
    csp, csstats = None, {}
    for attempt in range(2):
        csp, csstats = clusterscen.concurrent_same_node()
        if csp is not None:
            break
    cov["concurrent_clients_one_node"] = csstats
    seen_cs = set()
    for pr in csp or []:
        if pr["kind"] in seen_cs:
            continue
        seen_cs.add(pr["kind"])
        v.report({"branch": "cluster.one-node-concurrent", "kind": pr["kind"], "detail": ""}, pr,
                 what="six connections through one node of a healthy 3-node cluster, each on its own keys: %s" % pr["detail"])
    for pr in lprobs or []:
        v.report({"branch": "cluster.own-reply", "kind": pr["kind"], "detail": ""}, pr,
                 what="one client per node in lock step (a standalone server answers every command with its own result): %s" % pr["detail"])
    for nd in c1.nodes[:1] + c3.nodes:
        if not nd.alive():
            v.report({"branch": "cluster.node", "kind": "node-died", "detail": ""}, {"log": c3.tail(nd, 2000)}, what="a cluster node died while serving ordinary programmes")
finally:
    sa.stop()
    c1.shutdown()
    c3.shutdown()

def replicated_nondeterminism(prog):
    """Does the programme, before the failing command, hold a command on the SAME key whose replicated effect is known to
    differ between replicas (recorded findings C14-F01..F03 = C07-F01..F03)? Returns a suffix for the signature."""
    if not prog:
        return ""
    B = lambda a: bytes(a).decode("latin1")
    last = prog[-1]
    key = B(last[1]) if len(last) > 1 else None
    for c in prog[:-1]:
        name = B(c[0]).upper()
        args = [B(a) for a in c[1:]]
        if key is None or not args or key not in args:
            continue
        if name == "SPOP":
            return ":after-spop"
        if name == "XADD" and "*" in args:
            return ":after-xadd-auto"
        up = [a.upper() for a in args]
        if name in ("EXPIRE", "SETEX") or (name == "SET" and ("EX" in up or "PX" in up)):
            return ":after-relative-expiry"
    return ""


traces = []
for mode, fam, extra, _ in jobs:
    path = os.path.join(d, "%s-%s.ndjson" % (mode, fam))
    p = subprocess.run([gen, "-family", fam, "-seed", str(seed * 7 + len(traces)), "-steps", "30", "-out", path] + extra, stdout=subprocess.PIPE, stderr=subprocess.STDOUT, text=True, timeout=900)
    if p.returncode != 0:
        common.die_infra("ksgen failed: " + p.stdout[-1500:])
    traces.append((mode, fam, path))
traces += real_traces
base = {}
with concurrent.futures.ThreadPoolExecutor(max_workers=8) as ex:
    for (mode, fam, path), r in zip(traces, ex.map(lambda t: ks.validate_trace(t[2]), traces)):
        nprog = len({json.loads(l)["p"] for l in open(path)})
        cov["traces_validated_against_impl"] += nprog
        cov["programmes"]["%s/%s" % (mode, fam)] = {"programmes": nprog, "events": r["events"], "mismatching": len(r["mismatches"])}
        for m in r["mismatches"]:
            sig = ks.signature(m)
            if mode == "standalone":
                base[(fam, sig["branch"], sig["kind"])] = True   # a shared wrong answer is the family property's business
                continue
            if base.get((fam, sig["branch"], sig["kind"])):
                continue
            sig["detail"] = mode
            if mode == "cluster3":
                sig["detail"] = mode + replicated_nondeterminism(ks.replay_of(m, path)["programme_bytes"])
            v.report(sig, ks.replay_of(m, path), what="%s, family %s:\n%s" % (mode, fam, ks.explain(m, path)))
        if len(cov["samples"]) < 2 and mode != "standalone":
            tr = ks.load_trace(path)
            cov["samples"].append({"kind": "%s programme (%s)" % (fam, mode), "commands": ["%s -> %s" % (ks.show_argv(e["argv"]), ks.show_reply(e["reply"])) for e in tr if e["ev"] != "reset"][:10]})
cov["samples"].append({"kind": "codec vector", "argv": ["a b", "", "\\xff\\r\\n"], "check": "RPUSH key a1..an; LRANGE key 0 -1 must return exactly a1..an"})
v.finish(tier, "model_checking", cov, ["the cluster command filter (PUBLISH/SUBSCRIBE refused), RCONF/MEMBER and SELECT are outside the comparison",
                                       "in-process cluster path = real HandleCluster + real proposal JSON + real apply loop, Raft transport replaced (verif hook server/verif_cluster.go); real clusters are sampled",
                                       "random commands and ttl replies are compared through the model's outcome sets, not byte for byte with the standalone run"])
