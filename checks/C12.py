#!/usr/bin/env python3
"""C12 sorted sets: B1 tours of MC_Zset (options/ties) and MC_ZsetDeep (AVL shapes) + B2; the walker evaluates the AVL/dict/len invariants on the implementation after every edge."""
import common, ks, sched
tier = common.tier_arg()
LABELS = ('zadd', 'zrem', 'zrange', 'zrank')
ks.family_check(
    "C12", tier,
    b1_instances=[('MC_Zset', 'MC_Zset.cfg'), ('MC_Zset', 'MC_ZsetDeep.cfg')] if tier == "quick" else [('MC_Zset', 'MC_Zset.cfg'), ('MC_Zset', 'MC_ZsetDeep_thorough.cfg')],
    b2_families=['zset', 'zsetdeep'],
    level_text="", assumptions=['reference semantics = Redis command reference as transcribed in spec/KsZset.tla', 'order among equal scores is left open (zwin patterns, rank ranges)', 'scores on the exactly-representable decimal subset plus +-inf', 'structural invariants (BST order, |balance|<=1, stored heights, len, dict<->names) are evaluated in harness/canon/state.go on memdb.VerifDump after every B1 edge'],
    b2_progs=400 if tier == "quick" else 6000,
    label_filter=lambda b: b.split(".")[0] in LABELS, extra=sched.family_extra("C12", "zset"))
